package universe

import (
	"encoding/json"
	"fmt"
	"os"
	"path/filepath"
	"strings"

	"deps.dev/util/resolve/dep"
	"github.com/google/osv-scalibr/guidedremediation/result"
)

// Requirement is one direct requirement of a manifest.
type Requirement struct {
	// Name is the npm package name or the Maven "groupId:artifactId".
	Name string `json:"name"`
	// Req is the version requirement.
	Req string `json:"req"`
	// Group: npm "" (dependencies) | "dev" | "optional"; Maven: the <scope> ("" | "test" | "runtime").
	Group string `json:"group,omitempty"`
	// Alias (npm only): the key under which the dependency is declared, the value being
	// "npm:<Name>@<Req>".
	Alias string `json:"alias,omitempty"`
}

// Manifest is the model of a generated manifest; Render is the harness's own renderer.
type Manifest struct {
	System  string        `json:"system"`
	Name    string        `json:"name"`    // npm name or Maven "groupId:artifactId" of the root project
	Version string        `json:"version"` // version of the root project
	Deps    []Requirement `json:"deps"`
	// Management (Maven only) are the <dependencyManagement> entries.
	Management []Requirement `json:"management,omitempty"`
	// InertProfile (Maven only) adds a profile without activation that carries its own
	// <dependencyManagement> for an unrelated artifact. It never takes part in resolution;
	// it only varies the shape of the document the writer has to patch.
	InertProfile bool `json:"inert_profile,omitempty"`
}

// FileName is the base name the manifest has to have on disk.
func (m Manifest) FileName() string {
	if m.System == Maven {
		return "pom.xml"
	}
	return "package.json"
}

// Clone returns a deep copy.
func (m Manifest) Clone() Manifest {
	m.Deps = append([]Requirement(nil), m.Deps...)
	m.Management = append([]Requirement(nil), m.Management...)
	return m
}

// DuplicatedPackage returns the name of a package that several direct requirements of an npm
// manifest address under different keys (aliased duplicates), "" when there is none.
func (m Manifest) DuplicatedPackage() string {
	if m.System != NPM {
		return ""
	}
	for i, d := range m.Deps {
		for _, e := range m.Deps[:i] {
			if e.Name == d.Name && e.Alias != d.Alias {
				return d.Name
			}
		}
	}
	return ""
}

func jstr(s string) string {
	b, _ := json.Marshal(s)
	return string(b)
}

func xmlEsc(s string) string {
	r := strings.NewReplacer("&", "&amp;", "<", "&lt;", ">", "&gt;")
	return r.Replace(s)
}

// Render produces the manifest bytes.
func (m Manifest) Render() []byte {
	if m.System == Maven {
		return m.renderPOM()
	}
	return m.renderPackageJSON()
}

func (m Manifest) renderPackageJSON() []byte {
	var b strings.Builder
	b.WriteString("{\n")
	fmt.Fprintf(&b, "  \"name\": %s,\n  \"version\": %s", jstr(m.Name), jstr(m.Version))
	for _, sec := range []struct{ group, key string }{{"", "dependencies"}, {"dev", "devDependencies"}, {"optional", "optionalDependencies"}} {
		var lines []string
		for _, d := range m.Deps {
			if d.Group != sec.group {
				continue
			}
			key, val := d.Name, d.Req
			if d.Alias != "" {
				key, val = d.Alias, "npm:"+d.Name+"@"+d.Req
			}
			lines = append(lines, "    "+jstr(key)+": "+jstr(val))
		}
		if len(lines) == 0 {
			continue
		}
		fmt.Fprintf(&b, ",\n  %s: {\n%s\n  }", jstr(sec.key), strings.Join(lines, ",\n"))
	}
	b.WriteString("\n}\n")
	return []byte(b.String())
}

func pomDep(b *strings.Builder, indent string, d Requirement) {
	g, a, _ := strings.Cut(d.Name, ":")
	fmt.Fprintf(b, "%s<dependency>\n", indent)
	fmt.Fprintf(b, "%s  <groupId>%s</groupId>\n", indent, xmlEsc(g))
	fmt.Fprintf(b, "%s  <artifactId>%s</artifactId>\n", indent, xmlEsc(a))
	fmt.Fprintf(b, "%s  <version>%s</version>\n", indent, xmlEsc(d.Req))
	if d.Group != "" {
		fmt.Fprintf(b, "%s  <scope>%s</scope>\n", indent, xmlEsc(d.Group))
	}
	fmt.Fprintf(b, "%s</dependency>\n", indent)
}

func (m Manifest) renderPOM() []byte {
	var b strings.Builder
	g, a, _ := strings.Cut(m.Name, ":")
	b.WriteString("<project>\n  <modelVersion>4.0.0</modelVersion>\n")
	fmt.Fprintf(&b, "  <groupId>%s</groupId>\n  <artifactId>%s</artifactId>\n  <version>%s</version>\n", xmlEsc(g), xmlEsc(a), xmlEsc(m.Version))
	if len(m.Management) > 0 {
		b.WriteString("  <dependencyManagement>\n    <dependencies>\n")
		for _, d := range m.Management {
			pomDep(&b, "      ", d)
		}
		b.WriteString("    </dependencies>\n  </dependencyManagement>\n")
	}
	if len(m.Deps) > 0 {
		b.WriteString("  <dependencies>\n")
		for _, d := range m.Deps {
			pomDep(&b, "    ", d)
		}
		b.WriteString("  </dependencies>\n")
	}
	if m.InertProfile {
		b.WriteString("  <profiles>\n    <profile>\n      <id>verif-inert</id>\n      <dependencyManagement>\n        <dependencies>\n")
		pomDep(&b, "          ", Requirement{Name: "org.verif.unrelated:nothing", Req: "1.0.0"})
		b.WriteString("        </dependencies>\n      </dependencyManagement>\n    </profile>\n  </profiles>\n")
	}
	b.WriteString("</project>\n")
	return []byte(b.String())
}

// WriteTo writes the rendered manifest into dir and returns its path.
func (m Manifest) WriteTo(dir string) (string, error) {
	p := filepath.Join(dir, m.FileName())
	if err := os.WriteFile(p, m.Render(), 0o644); err != nil {
		return "", err
	}
	return p, nil
}

// Update is one requirement change, in the harness's own terms.
type Update struct {
	Name string `json:"name"`
	From string `json:"from"`
	To   string `json:"to"`
	// Management (Maven): the change addresses the <dependencyManagement> entry of the
	// package (which is created when absent: an override of a transitive dependency).
	Management bool `json:"management,omitempty"`
	// Alias (npm): the key of an aliased dependency.
	Alias string `json:"alias,omitempty"`
}

// UpdateOf converts a reported package update. The dependency type (not part of the JSON
// form of a result) tells a dependencyManagement entry from a regular dependency and carries
// the npm alias.
func UpdateOf(pu result.PackageUpdate) Update {
	u := Update{Name: pu.Name, From: pu.VersionFrom, To: pu.VersionTo}
	if o, ok := pu.Type.GetAttr(dep.MavenDependencyOrigin); ok && o == "management" {
		u.Management = true
	}
	if a, ok := pu.Type.GetAttr(dep.KnownAs); ok {
		u.Alias = a
	}
	return u
}

// UpdatesOf converts a list of reported package updates.
func UpdatesOf(pus []result.PackageUpdate) []Update {
	out := make([]Update, len(pus))
	for i, pu := range pus {
		out[i] = UpdateOf(pu)
	}
	return out
}

// Apply returns the manifest with the updates applied, the way guided remediation itself
// defines the effect of a patch on a manifest (Manifest.PatchRequirement): npm — the
// requirement of the addressed key becomes To; Maven — every entry of the package, in
// <dependencies> and in <dependencyManagement>, gets the requirement To, and when the package
// has no entry at all a <dependencyManagement> entry is added (override of a transitive
// dependency). The dependency type of a reported Maven update is not used to pick the
// entry: for a package listed in both sections the report carries one update whose type is
// that of the dependencyManagement entry. An update that addresses nothing is an error.
func (m Manifest) Apply(updates []Update) (Manifest, error) {
	out := m.Clone()
	for _, u := range updates {
		found := false
		if m.System == Maven {
			for i := range out.Deps {
				if out.Deps[i].Name == u.Name {
					out.Deps[i].Req = u.To
					found = true
				}
			}
			for i := range out.Management {
				if out.Management[i].Name == u.Name {
					out.Management[i].Req = u.To
					found = true
				}
			}
			if !found {
				out.Management = append(out.Management, Requirement{Name: u.Name, Req: u.To})
				found = true
			}
		} else {
			for i := range out.Deps {
				if out.Deps[i].Name == u.Name && out.Deps[i].Alias == u.Alias {
					out.Deps[i].Req = u.To
					found = true
				}
			}
		}
		if !found {
			return out, fmt.Errorf("universe: update of %s (%q -> %q) addresses no requirement of the manifest", u.Name, u.From, u.To)
		}
	}
	return out, nil
}

// Find returns the requirement an update addresses (nil when there is none).
func (m Manifest) Find(u Update) *Requirement {
	list := m.Deps
	if m.System == Maven && u.Management {
		list = m.Management
	}
	for i := range list {
		if list[i].Name == u.Name && (m.System == Maven || list[i].Alias == u.Alias) {
			return &list[i]
		}
	}
	return nil
}
