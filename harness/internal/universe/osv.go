package universe

import (
	"context"
	"encoding/json"
	"sort"

	"github.com/google/osv-scalibr/extractor"
	"github.com/ossf/osv-schema/bindings/go/osvschema"
)

// OSV is the subset of an OSV record the generators emit; its JSON form is OSV JSON.
type OSV struct {
	ID       string        `json:"id"`
	Aliases  []string      `json:"aliases,omitempty"`
	Severity []OSVSeverity `json:"severity,omitempty"`
	Affected []OSVAffected `json:"affected"`
}

// OSVSeverity is an OSV severity entry.
type OSVSeverity struct {
	Type  string `json:"type"`
	Score string `json:"score"`
}

// OSVAffected is an OSV affected entry.
type OSVAffected struct {
	Package  OSVPackage    `json:"package"`
	Severity []OSVSeverity `json:"severity,omitempty"`
	Ranges   []OSVRange    `json:"ranges,omitempty"`
	Versions []string      `json:"versions,omitempty"`
}

// OSVPackage names the affected package.
type OSVPackage struct {
	Ecosystem string `json:"ecosystem"`
	Name      string `json:"name"`
}

// OSVRange is an OSV range.
type OSVRange struct {
	Type   string     `json:"type"`
	Events []OSVEvent `json:"events"`
}

// OSVEvent is an OSV range event (exactly one field set).
type OSVEvent struct {
	Introduced   string `json:"introduced,omitempty"`
	Fixed        string `json:"fixed,omitempty"`
	LastAffected string `json:"last_affected,omitempty"`
}

// ToSchema converts the record to the osvschema binding (through its JSON form).
func (o OSV) ToSchema() (*osvschema.Vulnerability, error) {
	b, err := json.Marshal(o)
	if err != nil {
		return nil, err
	}
	var v osvschema.Vulnerability
	if err := json.Unmarshal(b, &v); err != nil {
		return nil, err
	}
	return &v, nil
}

func eventVersion(e OSVEvent) string {
	switch {
	case e.Introduced != "":
		return e.Introduced
	case e.Fixed != "":
		return e.Fixed
	}
	return e.LastAffected
}

// Affected is the reference OSV evaluation (DESIGN Appendix A.4, the OSV schema's
// evaluation pseudo-code) of one record against one package version. Versions are compared
// with the reference order; "0" is minus infinity. Ranges of type ECOSYSTEM are evaluated
// for every ecosystem, SEMVER only for npm, anything else never matches. A version or event
// outside the generated grammar makes the range not match (the generators do not emit such).
func Affected(o OSV, ecosystem, name, version string) bool {
	v, ok := ParseVer(version)
	for _, a := range o.Affected {
		if a.Package.Ecosystem != ecosystem || a.Package.Name != name {
			continue
		}
		for _, lv := range a.Versions {
			if lv == version {
				return true
			}
		}
		if !ok {
			continue
		}
		for _, r := range a.Ranges {
			if !(r.Type == "ECOSYSTEM" || (r.Type == "SEMVER" && ecosystem == "npm")) {
				continue
			}
			type ev struct {
				e    OSVEvent
				zero bool
				v    Ver
			}
			evs := make([]ev, 0, len(r.Events))
			bad := false
			for _, e := range r.Events {
				s := eventVersion(e)
				if s == "0" {
					evs = append(evs, ev{e: e, zero: true})
					continue
				}
				pv, ok := ParseVer(s)
				if !ok {
					bad = true
					break
				}
				evs = append(evs, ev{e: e, v: pv})
			}
			if bad {
				continue
			}
			sort.SliceStable(evs, func(i, j int) bool {
				if evs[i].zero != evs[j].zero {
					return evs[i].zero
				}
				if evs[i].zero {
					return false
				}
				return evs[i].v.Compare(evs[j].v) < 0
			})
			vulnerable := false
			for _, e := range evs {
				c := 1 // v compared with the event version
				if !e.zero {
					c = v.Compare(e.v)
				}
				switch {
				case e.e.Introduced != "" && c >= 0:
					vulnerable = true
				case e.e.Fixed != "" && c >= 0:
					vulnerable = false
				case e.e.LastAffected != "" && c > 0:
					vulnerable = false
				}
			}
			if vulnerable {
				return true
			}
		}
	}
	return false
}

// Matcher is the reference evaluator as a matcher.VulnerabilityMatcher.
type Matcher struct {
	recs   []OSV
	schema []*osvschema.Vulnerability
}

// NewMatcher builds the matcher over a set of records.
func NewMatcher(recs []OSV) (*Matcher, error) {
	m := &Matcher{recs: recs}
	for _, r := range recs {
		s, err := r.ToSchema()
		if err != nil {
			return nil, err
		}
		m.schema = append(m.schema, s)
	}
	return m, nil
}

// MatchVulnerabilities implements matcher.VulnerabilityMatcher.
func (m *Matcher) MatchVulnerabilities(ctx context.Context, pkgs []*extractor.Package) ([][]*osvschema.Vulnerability, error) {
	out := make([][]*osvschema.Vulnerability, len(pkgs))
	for i, p := range pkgs {
		eco := p.Ecosystem()
		for j, r := range m.recs {
			if Affected(r, eco, p.Name, p.Version) {
				out[i] = append(out[i], m.schema[j])
			}
		}
	}
	return out, nil
}
