package universe

import (
	"fmt"
	"strings"

	"pgregory.net/rapid"
)

// PomProfile (Maven, manifests without local parents): the last NDeps entries of Manifest.Deps
// are declared inside <profiles><profile> with <activation><activeByDefault>true, which Maven
// (and scalibr's reader) merges into the project's dependencies after the project's own ones:
// Manifest.Deps stays the effective list, in effective order.
//
// With Property set, the first of those entries writes its version as ${Property}; the
// property is defined in the profile's own <properties> (InProfile), in the project's
// top-level <properties> (AtTop), or in both. The definition in the profile is the one in
// force for the profile's dependency, so it always carries the entry's requirement; a
// top-level definition next to it carries TopValue when that is not empty (a value nothing
// uses), otherwise the same requirement. A top-level definition alone carries the requirement.
type PomProfile struct {
	ID        string `json:"id"`
	NDeps     int    `json:"n_deps"`
	Property  string `json:"property,omitempty"`
	InProfile bool   `json:"in_profile,omitempty"`
	AtTop     bool   `json:"at_top,omitempty"`
	TopValue  string `json:"top_value,omitempty"`
}

// inProfile reports whether Deps[i] is declared inside the active profile.
func (m Manifest) inProfile(i int) bool {
	p := m.Profile
	if p == nil || m.System != Maven || m.Chain != nil {
		return false
	}
	return i >= len(m.Deps)-p.NDeps && i < len(m.Deps)
}

// profileFirst is the index of the profile's first dependency (-1 when there is none).
func (m Manifest) profileFirst() int {
	for i := range m.Deps {
		if m.inProfile(i) {
			return i
		}
	}
	return -1
}

// pomTopProperties writes the project's top-level <properties>.
func (m Manifest) pomTopProperties(b *strings.Builder) {
	p := m.Profile
	i := m.profileFirst()
	if p == nil || i < 0 || p.Property == "" || !p.AtTop {
		return
	}
	val := m.Deps[i].Req
	if p.InProfile && p.TopValue != "" {
		val = p.TopValue
	}
	fmt.Fprintf(b, "  <properties>\n    <%s>%s</%s>\n  </properties>\n", p.Property, xmlEsc(val), p.Property)
}

// pomActiveProfile writes the profile that is active by default.
func (m Manifest) pomActiveProfile(b *strings.Builder) {
	p := m.Profile
	first := m.profileFirst()
	if first < 0 {
		return
	}
	b.WriteString("    <profile>\n")
	fmt.Fprintf(b, "      <id>%s</id>\n", xmlEsc(p.ID))
	b.WriteString("      <activation>\n        <activeByDefault>true</activeByDefault>\n      </activation>\n")
	if p.Property != "" && (p.InProfile || !p.AtTop) {
		fmt.Fprintf(b, "      <properties>\n        <%s>%s</%s>\n      </properties>\n", p.Property, xmlEsc(m.Deps[first].Req), p.Property)
	}
	b.WriteString("      <dependencies>\n")
	for i, d := range m.Deps {
		if !m.inProfile(i) {
			continue
		}
		if i == first && p.Property != "" {
			d.Req = "${" + p.Property + "}"
		}
		pomDep(b, "        ", d)
	}
	b.WriteString("      </dependencies>\n    </profile>\n")
}

// ProfileDeclares reports whether the package has a <dependencies> entry inside the active
// profile, and whether that entry's version is written through the profile's property.
func (m Manifest) ProfileDeclares(name string) (declared, viaProperty bool) {
	first := m.profileFirst()
	for i, d := range m.Deps {
		if m.inProfile(i) && d.Name == name {
			declared = true
			viaProperty = viaProperty || (i == first && m.Profile.Property != "")
		}
	}
	return declared, viaProperty
}

// GenPomProfile moves, for a share (percent) of the Maven manifests without local parents, the
// last one or two <dependencies> entries into a profile that is active by default; in most of
// them the first moved entry takes its version from a property defined in the profile, at top
// level, or in both places (with the same or with another value at top level).
func GenPomProfile(t *rapid.T, m *Manifest, percent int) {
	if m.System != Maven || m.Chain != nil || len(m.Deps) == 0 {
		return
	}
	if rapid.IntRange(0, 99).Draw(t, "pom_profile?") >= percent {
		return
	}
	p := &PomProfile{ID: "verif-default", NDeps: 1}
	if len(m.Deps) > 1 && rapid.IntRange(0, 9).Draw(t, "pom_profile.two") < 3 {
		p.NDeps = 2
	}
	switch x := rapid.IntRange(0, 9).Draw(t, "pom_profile.property"); {
	case x < 2: // literal versions
	case x < 4:
		p.Property, p.InProfile = "dep.version", true
	case x < 6:
		p.Property, p.AtTop = "dep.version", true
	default:
		p.Property, p.InProfile, p.AtTop = "dep.version", true, true
		if rapid.Bool().Draw(t, "pom_profile.top_differs") {
			p.TopValue = "0.0.1-elsewhere"
		}
	}
	m.Profile = p
}
