package universe

// Reference model of the two analysis options the C12 generator varies on top of the OSV
// evaluation: dev/test scope (options.RemediationOptions.DevDeps: "Whether to consider
// vulnerabilities in dev dependencies"; a vulnerability is confined to dev dependencies when
// every path from the root to every affected node starts with a dev (npm) / test (Maven)
// scoped direct requirement) and identifiers (IgnoreVulns: "Vulnerability IDs to ignore", a
// record is addressed by its id or by one of its aliases; ExplicitVulns: the record's id only).
// It works on a resolved graph and the manifest MODEL; nothing of the implementation's
// vulnerability bookkeeping (subgraphs, groups map, MatchVuln) is used.

import (
	"sort"

	"deps.dev/util/resolve"
	"deps.dev/util/resolve/dep"
)

// DevScoped reports whether the direct requirement with the given package and key alias is a
// dev (npm) / test (Maven) requirement of the manifest. npm: a key that appears in several
// sections is read as ONE requirement and devDependencies wins. Maven: the <dependencies>
// entry of the package decides (a dependencyManagement entry has no scope of its own here).
func (m Manifest) DevScoped(name, alias string) bool {
	dev := DevGroup(m.System)
	for _, d := range m.Deps {
		if d.Name == name && d.Group == dev && (m.System == Maven || d.Alias == alias) {
			return true
		}
	}
	return false
}

// SameKeyBothSections returns the npm packages whose key is declared in dependencies (or
// optionalDependencies) and in devDependencies.
func (m Manifest) SameKeyBothSections() []string {
	if m.System != NPM {
		return nil
	}
	var out []string
	for i, d := range m.Deps {
		for _, e := range m.Deps[:i] {
			if e.Name == d.Name && e.Alias == d.Alias && e.Group != d.Group && (e.Group == "dev" || d.Group == "dev") {
				out = append(out, d.Name)
			}
		}
	}
	return out
}

// RefVuln is one vulnerability of the reference analysis of a graph.
type RefVuln struct {
	ID      string
	Aliases []string
	// DevOnly: no affected node is reachable from the root through a production requirement.
	DevOnly bool
	// Packages are the affected nodes as name@version, sorted, distinct.
	Packages []string
}

// prodReach marks the nodes of a graph that are reachable from the root through a direct
// requirement that is not dev/test scoped.
func prodReach(g *resolve.Graph, m Manifest) []bool {
	adj := make([][]resolve.NodeID, len(g.Nodes))
	var start []resolve.NodeID
	for _, e := range g.Edges {
		if e.From == 0 {
			alias, _ := e.Type.GetAttr(dep.KnownAs)
			if !m.DevScoped(g.Nodes[e.To].Version.Name, alias) {
				start = append(start, e.To)
			}
			continue
		}
		adj[e.From] = append(adj[e.From], e.To)
	}
	prod := make([]bool, len(g.Nodes))
	for len(start) > 0 {
		n := start[len(start)-1]
		start = start[:len(start)-1]
		if n == 0 || prod[n] {
			continue
		}
		prod[n] = true
		start = append(start, adj[n]...)
	}
	return prod
}

// DevSharing describes, for a resolved graph, the dev/test scoped direct requirements whose
// package production requirements reach as well: SameNode lists the packages where the very
// node the dev/test requirement selects is also reached through a production requirement,
// OtherNode those where only another node (version) of the package is.
func DevSharing(g *resolve.Graph, m Manifest) (sameNode, otherNode []string) {
	prod := prodReach(g, m)
	for _, e := range g.Edges {
		if e.From != 0 {
			continue
		}
		name := g.Nodes[e.To].Version.Name
		alias, _ := e.Type.GetAttr(dep.KnownAs)
		if !m.DevScoped(name, alias) {
			continue
		}
		if prod[e.To] {
			sameNode = append(sameNode, name)
			continue
		}
		for i, n := range g.Nodes {
			if i != 0 && prod[i] && n.Version.Name == name {
				otherNode = append(otherNode, name)
				break
			}
		}
	}
	return sameNode, otherNode
}

// RefAnalyse is the reference analysis of a resolved graph: which records affect at least one
// non-root node (reference OSV evaluator), and whether each is confined to dev/test scope.
func RefAnalyse(g *resolve.Graph, m Manifest, recs []OSV) []RefVuln {
	eco := Ecosystem(m.System)
	prod := prodReach(g, m)
	var out []RefVuln
	for _, r := range recs {
		v := RefVuln{ID: r.ID, Aliases: r.Aliases, DevOnly: true}
		seen := map[string]bool{}
		for i, n := range g.Nodes {
			if i == 0 || !Affected(r, eco, n.Version.Name, n.Version.Version) {
				continue
			}
			if prod[i] {
				v.DevOnly = false
			}
			if k := n.Version.Name + "@" + n.Version.Version; !seen[k] {
				seen[k] = true
				v.Packages = append(v.Packages, k)
			}
		}
		if len(v.Packages) > 0 {
			sort.Strings(v.Packages)
			out = append(out, v)
		}
	}
	return out
}

// RefConsidered applies the identifier and scope options of the reference model to an
// analysis (severity and depth thresholds are not modelled here) and returns the ids.
func RefConsidered(vs []RefVuln, ignore, explicit []string, devDeps bool) map[string]bool {
	in := func(list []string, s string) bool {
		for _, x := range list {
			if x == s {
				return true
			}
		}
		return false
	}
	out := map[string]bool{}
	for _, v := range vs {
		if len(explicit) > 0 && !in(explicit, v.ID) {
			continue
		}
		ignored := in(ignore, v.ID)
		for _, a := range v.Aliases {
			ignored = ignored || in(ignore, a)
		}
		if ignored || (!devDeps && v.DevOnly) {
			continue
		}
		out[v.ID] = true
	}
	return out
}

// AdvisoryLinks returns the pairs (i, j), i != j, of records where record i names record j's
// id in its aliases.
func AdvisoryLinks(recs []OSV) [][2]int {
	var out [][2]int
	for i, a := range recs {
		for j, b := range recs {
			if i == j {
				continue
			}
			for _, al := range a.Aliases {
				if al == b.ID {
					out = append(out, [2]int{i, j})
					break
				}
			}
		}
	}
	return out
}

// AffectedVersions returns, for one package of the index, which of its versions a record
// affects (ascending version order).
func AffectedVersions(r OSV, system string, p *IndexPackage) []bool {
	out := make([]bool, len(p.Versions))
	for i, v := range p.Versions {
		out[i] = Affected(r, Ecosystem(system), p.Name, v.Version)
	}
	return out
}
