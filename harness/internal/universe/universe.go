package universe

import (
	"context"
	"fmt"
	"sort"
	"strings"
	"sync"
	"sync/atomic"

	"deps.dev/util/resolve"
	"deps.dev/util/resolve/schema"

	"verifharness/internal/vergram"
)

// Universe is a package universe for resolve.LocalClient, kept as text.
//
// Schema holds the lines of a deps.dev resolve/schema document with two spaces per
// indentation level, i.e. exactly the body of the `schema: |` block of the repository's
// universe.yaml test files (package / version / requirement lines; a version line may carry
// `Tags latest|1.2.3`; a requirement line may carry a dependency type such as `Opt|name@req`).
type Universe struct {
	System string   `json:"system"` // "npm" or "maven"
	Schema []string `json:"schema"`
}

// ResolveSystem maps a system name to the deps.dev constant.
func ResolveSystem(system string) resolve.System {
	switch system {
	case NPM:
		return resolve.NPM
	case Maven:
		return resolve.Maven
	}
	return resolve.UnknownSystem
}

// Ecosystem is the OSV ecosystem name of a system.
func Ecosystem(system string) string {
	if system == Maven {
		return "Maven"
	}
	return "npm"
}

// Text returns the schema as the tab-indented text schema.New expects.
func (u Universe) Text() string {
	var b strings.Builder
	for _, l := range u.Schema {
		n := 0
		for strings.HasPrefix(l[2*n:], "  ") {
			n++
		}
		b.WriteString(strings.Repeat("\t", n))
		b.WriteString(l[2*n:])
		b.WriteByte('\n')
	}
	return b.String()
}

// YAML renders the universe in the layout of the repository's universe.yaml files.
func (u Universe) YAML() string {
	var b strings.Builder
	fmt.Fprintf(&b, "system: %s\nschema: |\n", u.System)
	for _, l := range u.Schema {
		b.WriteString("  " + l + "\n")
	}
	return b.String()
}

// Client builds a fresh resolve.LocalClient holding the universe.
func (u Universe) Client() (*resolve.LocalClient, error) {
	sys := ResolveSystem(u.System)
	if sys == resolve.UnknownSystem {
		return nil, fmt.Errorf("universe: unknown system %q", u.System)
	}
	sch, err := schema.New(u.Text(), sys)
	if err != nil {
		return nil, fmt.Errorf("universe: schema: %w", err)
	}
	return sch.NewClient(), nil
}

// IndexDep is one requirement line of a version.
type IndexDep struct {
	Type string // "" or the dependency type prefix (e.g. "Opt")
	Name string
	Req  string
}

// IndexVersion is one version of a package.
type IndexVersion struct {
	Version string
	V       Ver
	Tags    []string
	Deps    []IndexDep
}

// IndexPackage is one package with its versions in ascending reference order.
type IndexPackage struct {
	Name     string
	Versions []IndexVersion
}

// Index is the parsed form of a Universe: packages in schema order, versions ascending in
// the reference order (Ver.Compare).
type Index struct {
	System   string
	Packages []IndexPackage
	byName   map[string]int
}

// Package returns a package by name.
func (ix *Index) Package(name string) (*IndexPackage, bool) {
	i, ok := ix.byName[name]
	if !ok {
		return nil, false
	}
	return &ix.Packages[i], true
}

// VersionStrings returns the ascending version strings of a package (nil when unknown).
func (ix *Index) VersionStrings(name string) []string {
	p, ok := ix.Package(name)
	if !ok {
		return nil
	}
	out := make([]string, len(p.Versions))
	for i, v := range p.Versions {
		out[i] = v.Version
	}
	return out
}

// Size is the number of (package, version) pairs.
func (ix *Index) Size() int {
	n := 0
	for _, p := range ix.Packages {
		n += len(p.Versions)
	}
	return n
}

// Index parses the schema lines (own parser of the subset the generators emit; every version
// must be inside the generated version grammar).
func (u Universe) Index() (*Index, error) {
	ix := &Index{System: u.System, byName: map[string]int{}}
	var pkg *IndexPackage
	var ver *IndexVersion
	for ln, line := range u.Schema {
		if strings.TrimSpace(line) == "" {
			continue
		}
		n := 0
		for strings.HasPrefix(line[2*n:], "  ") {
			n++
		}
		body := strings.TrimSpace(line[2*n:])
		switch n {
		case 0:
			ix.Packages = append(ix.Packages, IndexPackage{Name: body})
			pkg = &ix.Packages[len(ix.Packages)-1]
			ver = nil
		case 1:
			if pkg == nil {
				return nil, fmt.Errorf("universe: line %d: version before package", ln)
			}
			var iv IndexVersion
			if attr, v, ok := strings.Cut(body, "|"); ok {
				f := strings.Fields(attr)
				for i := 0; i+1 < len(f); i += 2 {
					if strings.EqualFold(f[i], "tags") {
						iv.Tags = strings.Split(f[i+1], ",")
					}
				}
				body = strings.TrimSpace(v)
			}
			pv, ok := ParseVer(body)
			if !ok {
				return nil, fmt.Errorf("universe: line %d: version %q outside the generated grammar", ln, body)
			}
			iv.Version, iv.V = body, pv
			pkg.Versions = append(pkg.Versions, iv)
			ver = &pkg.Versions[len(pkg.Versions)-1]
		case 2:
			if ver == nil {
				return nil, fmt.Errorf("universe: line %d: requirement before version", ln)
			}
			var d IndexDep
			if typ, rest, ok := strings.Cut(body, "|"); ok {
				d.Type, body = strings.TrimSpace(typ), rest
			}
			at := strings.LastIndex(body, "@")
			if at <= 0 {
				return nil, fmt.Errorf("universe: line %d: bad requirement %q", ln, body)
			}
			d.Name, d.Req = body[:at], body[at+1:]
			ver.Deps = append(ver.Deps, d)
		default:
			return nil, fmt.Errorf("universe: line %d: too deep", ln)
		}
	}
	for i := range ix.Packages {
		p := &ix.Packages[i]
		if _, dup := ix.byName[p.Name]; dup {
			return nil, fmt.Errorf("universe: duplicate package %q", p.Name)
		}
		ix.byName[p.Name] = i
		sort.SliceStable(p.Versions, func(a, b int) bool { return p.Versions[a].V.Compare(p.Versions[b].V) < 0 })
		for j := 1; j < len(p.Versions); j++ {
			if p.Versions[j-1].V.Compare(p.Versions[j].V) == 0 {
				return nil, fmt.Errorf("universe: package %q has two equal versions %q, %q", p.Name, p.Versions[j-1].Version, p.Versions[j].Version)
			}
		}
		if u.System == Maven {
			if err := checkMavenOrder(p); err != nil {
				return nil, err
			}
		}
	}
	return ix, nil
}

// RefCompareMaven is Maven's version order as the reference comparators of internal/vergram
// state it (every comparator that applies has to give the same verdict; ok is false when none
// applies or when they disagree).
func RefCompareMaven(a, b string) (c int, ok bool) {
	refs := vergram.References("Maven", a, b)
	if len(refs) == 0 {
		return 0, false
	}
	for _, r := range refs[1:] {
		if r.Cmp != refs[0].Cmp {
			return 0, false
		}
	}
	return refs[0].Cmp, true
}

// checkMavenOrder verifies, for a package that carries qualifier flavours, that the model
// order (Ver.Compare, which sorted the versions) is Maven's order on every pair of its
// versions. A disagreement is a mistake of the harness's version model.
func checkMavenOrder(p *IndexPackage) error {
	flavoured := false
	for _, v := range p.Versions {
		flavoured = flavoured || v.V.Flav != FlavNone || v.V.Tight
	}
	if !flavoured {
		return nil
	}
	for i := range p.Versions {
		for j := i + 1; j < len(p.Versions); j++ {
			if c, ok := RefCompareMaven(p.Versions[i].Version, p.Versions[j].Version); !ok || c >= 0 {
				return fmt.Errorf("universe: package %q: the model orders %q before %q, the Maven reference comparator says %d (decided: %v)", p.Name, p.Versions[i].Version, p.Versions[j].Version, c, ok)
			}
		}
	}
	return nil
}

// CountingClient wraps a resolve.Client: it serialises calls (LocalClient sorts its version
// slices in place, and guided remediation calls it from several goroutines), hands out
// copies, counts calls, and once Budget calls were made fails every further call so that a
// spinning computation comes to an end and can be reported.
type CountingClient struct {
	inner  resolve.Client
	mu     sync.Mutex
	calls  atomic.Int64
	budget int64
}

// ErrBudget is returned by every call after the call budget is exhausted.
var ErrBudget = fmt.Errorf("universe: resolve-client call budget exhausted")

// NewCountingClient wraps inner; budget <= 0 means unlimited.
func NewCountingClient(inner resolve.Client, budget int64) *CountingClient {
	return &CountingClient{inner: inner, budget: budget}
}

// Calls returns the number of calls made so far.
func (c *CountingClient) Calls() int64 { return c.calls.Load() }

// Exceeded reports whether the budget was exhausted.
func (c *CountingClient) Exceeded() bool { return c.budget > 0 && c.calls.Load() > c.budget }

func (c *CountingClient) enter() error {
	n := c.calls.Add(1)
	if c.budget > 0 && n > c.budget {
		return ErrBudget
	}
	return nil
}

// Version implements resolve.Client.
func (c *CountingClient) Version(ctx context.Context, vk resolve.VersionKey) (resolve.Version, error) {
	if err := c.enter(); err != nil {
		return resolve.Version{}, err
	}
	c.mu.Lock()
	defer c.mu.Unlock()
	return c.inner.Version(ctx, vk)
}

// Versions implements resolve.Client.
func (c *CountingClient) Versions(ctx context.Context, pk resolve.PackageKey) ([]resolve.Version, error) {
	if err := c.enter(); err != nil {
		return nil, err
	}
	c.mu.Lock()
	defer c.mu.Unlock()
	vs, err := c.inner.Versions(ctx, pk)
	return append([]resolve.Version(nil), vs...), err
}

// Requirements implements resolve.Client.
func (c *CountingClient) Requirements(ctx context.Context, vk resolve.VersionKey) ([]resolve.RequirementVersion, error) {
	if err := c.enter(); err != nil {
		return nil, err
	}
	c.mu.Lock()
	defer c.mu.Unlock()
	rs, err := c.inner.Requirements(ctx, vk)
	out := make([]resolve.RequirementVersion, len(rs))
	for i, r := range rs {
		r.Type = r.Type.Clone()
		out[i] = r
	}
	return out, err
}

// MatchingVersions implements resolve.Client.
func (c *CountingClient) MatchingVersions(ctx context.Context, vk resolve.VersionKey) ([]resolve.Version, error) {
	if err := c.enter(); err != nil {
		return nil, err
	}
	c.mu.Lock()
	defer c.mu.Unlock()
	vs, err := c.inner.MatchingVersions(ctx, vk)
	return append([]resolve.Version(nil), vs...), err
}
