package universe

import (
	"context"
	"path/filepath"
	"testing"

	"deps.dev/util/resolve"
	"deps.dev/util/semver"
	scalibrfs "github.com/google/osv-scalibr/fs"
	"github.com/google/osv-scalibr/guidedremediation/options"
	"github.com/google/osv-scalibr/guidedremediation/result"
	"github.com/google/osv-scalibr/guidedremediation/verifhooks"
	"pgregory.net/rapid"
)

// Self-tests of the generators and reference models (not a property of the code under test):
// the reference order agrees with deps.dev's comparator on every generated version list, the
// schema text parses, the rendered manifest reads back as the model, every scenario resolves,
// and the reference OSV evaluation agrees with the implementation's predicate on generated
// records (disagreement would be C18's subject; here it only guards the generators).
func TestSelf(t *testing.T) {
	for _, system := range []string{NPM, Maven} {
		t.Run(system, func(t *testing.T) {
			sv := semver.NPM
			if system == Maven {
				sv = semver.Maven
			}
			rapid.Check(t, func(rt *rapid.T) {
				cfg := DefaultConfig(system)
				cfg.UnknownReqs = false
				s := GenScenario(rt, cfg)
				ix, err := s.Universe.Index()
				if err != nil {
					rt.Fatalf("index: %v", err)
				}
				for _, p := range ix.Packages {
					for i := range p.Versions {
						if got := p.Versions[i].V.Render(system); got != p.Versions[i].Version {
							rt.Fatalf("render(parse(%q)) = %q", p.Versions[i].Version, got)
						}
						for j := range p.Versions {
							want := sgn(i, j)
							if got := sv.Compare(p.Versions[i].Version, p.Versions[j].Version); got != want {
								rt.Fatalf("%s: reference order and deps.dev disagree on %q vs %q: %d vs %d", system, p.Versions[i].Version, p.Versions[j].Version, want, got)
							}
						}
					}
				}
				w, err := s.Materialise(0)
				if err != nil {
					rt.Fatalf("materialise: %v", err)
				}
				defer w.Close()
				for _, p := range ix.Packages {
					vs, err := w.Client.Versions(context.Background(), resolve.PackageKey{System: w.System, Name: p.Name})
					if err != nil || len(vs) != len(p.Versions) {
						rt.Fatalf("client versions of %s: %v, %d vs %d", p.Name, err, len(vs), len(p.Versions))
					}
				}
				path, err := w.WriteManifest(s.Manifest)
				if err != nil {
					rt.Fatal(err)
				}
				reqs, err := verifhooks.ReadManifest(w.System, scalibrfs.DirFS(filepath.Dir(path)), filepath.Base(path))
				if err != nil {
					rt.Fatalf("read back: %v\n%s", err, s.Manifest.Render())
				}
				if len(reqs) != len(s.Manifest.Deps)+len(s.Manifest.Management) {
					rt.Fatalf("read back %d requirements, model has %d+%d\n%s", len(reqs), len(s.Manifest.Deps), len(s.Manifest.Management), s.Manifest.Render())
				}
				for _, r := range reqs {
					u := UpdateOf(resultUpdate(r))
					m := s.Manifest.Find(u)
					if m == nil || m.Req != r.Req.Version {
						rt.Fatalf("read back %v: model has %+v", r.Req, m)
					}
				}
				if _, err := w.Resolve(context.Background(), path, options.ResolutionOptions{}); err != nil {
					rt.Fatalf("resolve: %v", err)
				}
				for _, o := range s.Vulns {
					sch, _ := o.ToSchema()
					for _, p := range ix.Packages {
						for _, v := range p.Versions {
							vk := resolve.VersionKey{PackageKey: resolve.PackageKey{System: w.System, Name: p.Name}, Version: v.Version, VersionType: resolve.Concrete}
							if a, b := Affected(o, Ecosystem(system), p.Name, v.Version), verifhooks.IsAffected(sch, vk); a != b {
								rt.Fatalf("reference evaluator %v, implementation %v on %s@%s for %+v", a, b, p.Name, v.Version, o)
							}
						}
					}
				}
			})
		})
	}
}

func resultUpdate(r verifhooks.Requirement) result.PackageUpdate {
	return result.PackageUpdate{Name: r.Req.Name, VersionFrom: r.Req.Version, Type: r.Req.Type}
}

// TestSelfExtended: the same guards for the generator options that are off by default
// (advisories linked through aliases, dev/test scoped requirements on packages production
// requirements reach as well): the schema indexes, the rendered manifest reads back as the
// model says (one requirement per key; for an npm key declared in devDependencies and in
// another section the devDependencies entry is the one that counts; dev/test groups as
// Manifest.DevScoped says), the scenario resolves, linked advisories name records that exist,
// and the reference OSV evaluation agrees with the implementation's predicate.
func TestSelfExtended(t *testing.T) {
	for _, system := range []string{NPM, Maven} {
		t.Run(system, func(t *testing.T) {
			linked, shared := 0, 0
			rapid.Check(t, func(rt *rapid.T) {
				cfg := DefaultConfig(system)
				cfg.UnknownReqs = false
				cfg.AliasDuplicates = 30
				cfg.LinkedAdvisories = 60
				cfg.DevShared = 60
				s := GenScenario(rt, cfg)
				ix, err := s.Universe.Index()
				if err != nil {
					rt.Fatalf("index: %v", err)
				}
				ids := map[string]bool{}
				for _, o := range s.Vulns {
					if ids[o.ID] {
						rt.Fatalf("duplicate advisory id %s", o.ID)
					}
					ids[o.ID] = true
					for _, a := range o.Affected {
						if _, ok := ix.Package(a.Package.Name); !ok {
							rt.Fatalf("advisory %s affects unknown package %s", o.ID, a.Package.Name)
						}
					}
				}
				if len(AdvisoryLinks(s.Vulns)) > 0 {
					linked++
				}
				w, err := s.Materialise(0)
				if err != nil {
					rt.Fatalf("materialise: %v", err)
				}
				defer w.Close()
				path, err := w.WriteManifest(s.Manifest)
				if err != nil {
					rt.Fatal(err)
				}
				reqs, err := verifhooks.ReadManifest(w.System, scalibrfs.DirFS(filepath.Dir(path)), filepath.Base(path))
				if err != nil {
					rt.Fatalf("read back: %v\n%s", err, s.Manifest.Render())
				}
				type key struct{ name, alias string }
				want := map[key]Requirement{} // the entry that counts per key
				for _, d := range s.Manifest.Deps {
					k := key{d.Name, d.Alias}
					if e, ok := want[k]; ok && system == NPM {
						if rank := map[string]int{"": 0, "optional": 1, "dev": 2}; rank[d.Group] < rank[e.Group] {
							continue
						}
					}
					want[k] = d
				}
				if len(reqs) != len(want)+len(s.Manifest.Management) {
					rt.Fatalf("read back %d requirements, model has %d keys + %d management entries\n%s", len(reqs), len(want), len(s.Manifest.Management), s.Manifest.Render())
				}
				dev := DevGroup(system)
				for _, r := range reqs {
					u := UpdateOf(resultUpdate(r))
					if u.Management {
						continue
					}
					m, ok := want[key{u.Name, u.Alias}]
					if !ok || m.Req != r.Req.Version {
						rt.Fatalf("read back %v: model has %+v\n%s", r.Req, m, s.Manifest.Render())
					}
					isDev := false
					for _, g := range r.Groups {
						isDev = isDev || g == dev
					}
					if isDev != s.Manifest.DevScoped(u.Name, u.Alias) {
						rt.Fatalf("read back %v with groups %v: model says dev/test = %v\n%s", r.Req, r.Groups, !isDev, s.Manifest.Render())
					}
					if isDev {
						shared++
					}
				}
				if _, err := w.Resolve(context.Background(), path, options.ResolutionOptions{}); err != nil {
					rt.Fatalf("resolve: %v", err)
				}
				for _, o := range s.Vulns {
					sch, _ := o.ToSchema()
					for _, p := range ix.Packages {
						for _, v := range p.Versions {
							vk := resolve.VersionKey{PackageKey: resolve.PackageKey{System: w.System, Name: p.Name}, Version: v.Version, VersionType: resolve.Concrete}
							if a, b := Affected(o, Ecosystem(system), p.Name, v.Version), verifhooks.IsAffected(sch, vk); a != b {
								rt.Fatalf("reference evaluator %v, implementation %v on %s@%s for %+v", a, b, p.Name, v.Version, o)
							}
						}
					}
				}
			})
			if linked == 0 || shared == 0 {
				t.Fatalf("generator options had no effect: %d scenarios with linked advisories, %d dev/test requirements", linked, shared)
			}
		})
	}
}
