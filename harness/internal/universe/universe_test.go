package universe

import (
	"context"
	"path/filepath"
	"reflect"
	"testing"

	"deps.dev/util/resolve"
	"deps.dev/util/semver"
	scalibrfs "github.com/google/osv-scalibr/fs"
	"github.com/google/osv-scalibr/guidedremediation/options"
	"github.com/google/osv-scalibr/guidedremediation/result"
	"github.com/google/osv-scalibr/guidedremediation/verifhooks"
	"pgregory.net/rapid"
)

// Self-tests of the generators and reference models (not a property of the code under test):
// the reference order agrees with deps.dev's comparator on every generated version list, the
// schema text parses, the rendered manifest reads back as the model, every scenario resolves,
// and the reference OSV evaluation agrees with the implementation's predicate on generated
// records (disagreement would be C18's subject; here it only guards the generators).
func TestSelf(t *testing.T) {
	for _, system := range []string{NPM, Maven} {
		t.Run(system, func(t *testing.T) {
			sv := semver.NPM
			if system == Maven {
				sv = semver.Maven
			}
			rapid.Check(t, func(rt *rapid.T) {
				cfg := DefaultConfig(system)
				cfg.UnknownReqs = false
				s := GenScenario(rt, cfg)
				ix, err := s.Universe.Index()
				if err != nil {
					rt.Fatalf("index: %v", err)
				}
				for _, p := range ix.Packages {
					for i := range p.Versions {
						if got := p.Versions[i].V.Render(system); got != p.Versions[i].Version {
							rt.Fatalf("render(parse(%q)) = %q", p.Versions[i].Version, got)
						}
						for j := range p.Versions {
							want := sgn(i, j)
							if got := sv.Compare(p.Versions[i].Version, p.Versions[j].Version); got != want {
								rt.Fatalf("%s: reference order and deps.dev disagree on %q vs %q: %d vs %d", system, p.Versions[i].Version, p.Versions[j].Version, want, got)
							}
						}
					}
				}
				w, err := s.Materialise(0)
				if err != nil {
					rt.Fatalf("materialise: %v", err)
				}
				defer w.Close()
				for _, p := range ix.Packages {
					vs, err := w.Client.Versions(context.Background(), resolve.PackageKey{System: w.System, Name: p.Name})
					if err != nil || len(vs) != len(p.Versions) {
						rt.Fatalf("client versions of %s: %v, %d vs %d", p.Name, err, len(vs), len(p.Versions))
					}
				}
				path, err := w.WriteManifest(s.Manifest)
				if err != nil {
					rt.Fatal(err)
				}
				reqs, err := verifhooks.ReadManifest(w.System, scalibrfs.DirFS(filepath.Dir(path)), filepath.Base(path))
				if err != nil {
					rt.Fatalf("read back: %v\n%s", err, s.Manifest.Render())
				}
				if len(reqs) != len(s.Manifest.Deps)+len(s.Manifest.Management) {
					rt.Fatalf("read back %d requirements, model has %d+%d\n%s", len(reqs), len(s.Manifest.Deps), len(s.Manifest.Management), s.Manifest.Render())
				}
				for _, r := range reqs {
					u := UpdateOf(resultUpdate(r))
					m := s.Manifest.Find(u)
					if m == nil || m.Req != r.Req.Version {
						rt.Fatalf("read back %v: model has %+v", r.Req, m)
					}
				}
				if _, err := w.Resolve(context.Background(), path, options.ResolutionOptions{}); err != nil {
					rt.Fatalf("resolve: %v", err)
				}
				for _, o := range s.Vulns {
					sch, _ := o.ToSchema()
					for _, p := range ix.Packages {
						for _, v := range p.Versions {
							vk := resolve.VersionKey{PackageKey: resolve.PackageKey{System: w.System, Name: p.Name}, Version: v.Version, VersionType: resolve.Concrete}
							if a, b := Affected(o, Ecosystem(system), p.Name, v.Version), verifhooks.IsAffected(sch, vk); a != b {
								rt.Fatalf("reference evaluator %v, implementation %v on %s@%s for %+v", a, b, p.Name, v.Version, o)
							}
						}
					}
				}
			})
		})
	}
}

func resultUpdate(r verifhooks.Requirement) result.PackageUpdate {
	return result.PackageUpdate{Name: r.Req.Name, VersionFrom: r.Req.Version, Type: r.Req.Type}
}

// TestSelfExtended: the same guards for the generator options that are off by default
// (advisories linked through aliases, dev/test scoped requirements on packages production
// requirements reach as well): the schema indexes, the rendered manifest reads back as the
// model says (one requirement per key; for an npm key declared in devDependencies and in
// another section the devDependencies entry is the one that counts; dev/test groups as
// Manifest.DevScoped says), the scenario resolves, linked advisories name records that exist,
// and the reference OSV evaluation agrees with the implementation's predicate.
func TestSelfExtended(t *testing.T) {
	for _, system := range []string{NPM, Maven} {
		t.Run(system, func(t *testing.T) {
			linked, shared := 0, 0
			rapid.Check(t, func(rt *rapid.T) {
				cfg := DefaultConfig(system)
				cfg.UnknownReqs = false
				cfg.AliasDuplicates = 30
				cfg.LinkedAdvisories = 60
				cfg.DevShared = 60
				s := GenScenario(rt, cfg)
				ix, err := s.Universe.Index()
				if err != nil {
					rt.Fatalf("index: %v", err)
				}
				ids := map[string]bool{}
				for _, o := range s.Vulns {
					if ids[o.ID] {
						rt.Fatalf("duplicate advisory id %s", o.ID)
					}
					ids[o.ID] = true
					for _, a := range o.Affected {
						if _, ok := ix.Package(a.Package.Name); !ok {
							rt.Fatalf("advisory %s affects unknown package %s", o.ID, a.Package.Name)
						}
					}
				}
				if len(AdvisoryLinks(s.Vulns)) > 0 {
					linked++
				}
				w, err := s.Materialise(0)
				if err != nil {
					rt.Fatalf("materialise: %v", err)
				}
				defer w.Close()
				path, err := w.WriteManifest(s.Manifest)
				if err != nil {
					rt.Fatal(err)
				}
				reqs, err := verifhooks.ReadManifest(w.System, scalibrfs.DirFS(filepath.Dir(path)), filepath.Base(path))
				if err != nil {
					rt.Fatalf("read back: %v\n%s", err, s.Manifest.Render())
				}
				type key struct{ name, alias string }
				want := map[key]Requirement{} // the entry that counts per key
				for _, d := range s.Manifest.Deps {
					k := key{d.Name, d.Alias}
					if e, ok := want[k]; ok && system == NPM {
						if rank := map[string]int{"": 0, "optional": 1, "dev": 2}; rank[d.Group] < rank[e.Group] {
							continue
						}
					}
					want[k] = d
				}
				if len(reqs) != len(want)+len(s.Manifest.Management) {
					rt.Fatalf("read back %d requirements, model has %d keys + %d management entries\n%s", len(reqs), len(want), len(s.Manifest.Management), s.Manifest.Render())
				}
				dev := DevGroup(system)
				for _, r := range reqs {
					u := UpdateOf(resultUpdate(r))
					if u.Management {
						continue
					}
					m, ok := want[key{u.Name, u.Alias}]
					if !ok || m.Req != r.Req.Version {
						rt.Fatalf("read back %v: model has %+v\n%s", r.Req, m, s.Manifest.Render())
					}
					isDev := false
					for _, g := range r.Groups {
						isDev = isDev || g == dev
					}
					if isDev != s.Manifest.DevScoped(u.Name, u.Alias) {
						rt.Fatalf("read back %v with groups %v: model says dev/test = %v\n%s", r.Req, r.Groups, !isDev, s.Manifest.Render())
					}
					if isDev {
						shared++
					}
				}
				if _, err := w.Resolve(context.Background(), path, options.ResolutionOptions{}); err != nil {
					rt.Fatalf("resolve: %v", err)
				}
				for _, o := range s.Vulns {
					sch, _ := o.ToSchema()
					for _, p := range ix.Packages {
						for _, v := range p.Versions {
							vk := resolve.VersionKey{PackageKey: resolve.PackageKey{System: w.System, Name: p.Name}, Version: v.Version, VersionType: resolve.Concrete}
							if a, b := Affected(o, Ecosystem(system), p.Name, v.Version), verifhooks.IsAffected(sch, vk); a != b {
								rt.Fatalf("reference evaluator %v, implementation %v on %s@%s for %+v", a, b, p.Name, v.Version, o)
							}
						}
					}
				}
			})
			if linked == 0 || shared == 0 {
				t.Fatalf("generator options had no effect: %d scenarios with linked advisories, %d dev/test requirements", linked, shared)
			}
		})
	}
}

// TestSelfFlavours: the guards of TestSelf for Maven universes with qualifier flavours
// (GenConfig.MavenFlavours): render(parse(v)) = v, the model order is Maven's (Index checks
// it against the reference comparator of internal/vergram; here also against deps.dev's
// comparator directly), the client serves every version, the scenario resolves, the reference
// OSV evaluation agrees with the implementation's predicate, and every flavour occurs among the
// published and among the required versions.
func TestSelfFlavours(t *testing.T) {
	published, required := map[string]int{}, map[string]int{}
	rapid.Check(t, func(rt *rapid.T) {
		cfg := DefaultConfig(Maven)
		cfg.UnknownReqs = false
		cfg.MavenFlavours = 60
		s := GenScenario(rt, cfg)
		ix, err := s.Universe.Index()
		if err != nil {
			rt.Fatalf("index: %v", err)
		}
		for _, p := range ix.Packages {
			for i := range p.Versions {
				if got := p.Versions[i].V.Render(Maven); got != p.Versions[i].Version {
					rt.Fatalf("render(parse(%q)) = %q", p.Versions[i].Version, got)
				}
				published[p.Versions[i].V.FlavourName()]++
				for j := range p.Versions {
					if got := semver.Maven.Compare(p.Versions[i].Version, p.Versions[j].Version); got != sgn(i, j) {
						rt.Fatalf("reference order and deps.dev disagree on %q vs %q: %d vs %d", p.Versions[i].Version, p.Versions[j].Version, sgn(i, j), got)
					}
				}
				for _, d := range p.Versions[i].Deps {
					if !IsMavenRange(d.Req) {
						if v, ok := ParseVer(d.Req); ok {
							required[v.FlavourName()]++
						}
					}
				}
			}
		}
		for _, d := range s.Manifest.Deps {
			if v, ok := ParseVer(d.Req); ok {
				required[v.FlavourName()]++
			}
		}
		w, err := s.Materialise(0)
		if err != nil {
			rt.Fatalf("materialise: %v", err)
		}
		defer w.Close()
		for _, p := range ix.Packages {
			vs, err := w.Client.Versions(context.Background(), resolve.PackageKey{System: w.System, Name: p.Name})
			if err != nil || len(vs) != len(p.Versions) {
				rt.Fatalf("client versions of %s: %v, %d vs %d", p.Name, err, len(vs), len(p.Versions))
			}
			// the matcher of a requirement of the generated forms is the model's
			for _, v := range p.Versions {
				for _, req := range []string{v.Version, "[" + v.Version + "]", "[" + v.Version + ",)", "[" + v.Version + "," + Ver{Major: v.V.Major + 1}.Render(Maven) + ")"} {
					ms, err := w.Client.MatchingVersions(context.Background(), resolve.VersionKey{PackageKey: resolve.PackageKey{System: w.System, Name: p.Name}, Version: req, VersionType: resolve.Requirement})
					if err != nil {
						rt.Fatalf("matching versions of %s@%s: %v", p.Name, req, err)
					}
					got := map[string]bool{}
					for _, m := range ms {
						got[m.Version] = true
					}
					for _, o := range p.Versions {
						want, ok := MavenReqMatches(req, o.V)
						if !ok {
							rt.Fatalf("requirement %q outside the model", req)
						}
						if IsMavenRange(req) && want != got[o.Version] {
							rt.Fatalf("%s: requirement %q, version %q: model says %v, deps.dev says %v", p.Name, req, o.Version, want, got[o.Version])
						}
					}
				}
			}
		}
		path, err := w.WriteManifest(s.Manifest)
		if err != nil {
			rt.Fatal(err)
		}
		if _, err := w.Resolve(context.Background(), path, options.ResolutionOptions{}); err != nil {
			rt.Fatalf("resolve: %v", err)
		}
		for _, o := range s.Vulns {
			sch, _ := o.ToSchema()
			for _, p := range ix.Packages {
				for _, v := range p.Versions {
					vk := resolve.VersionKey{PackageKey: resolve.PackageKey{System: w.System, Name: p.Name}, Version: v.Version, VersionType: resolve.Concrete}
					if a, b := Affected(o, Ecosystem(Maven), p.Name, v.Version), verifhooks.IsAffected(sch, vk); a != b {
						rt.Fatalf("reference evaluator %v, implementation %v on %s@%s for %+v", a, b, p.Name, v.Version, o)
					}
				}
			}
		}
	})
	t.Logf("published versions by flavour: %v", published)
	t.Logf("soft requirements by flavour: %v", required)
	for _, f := range []string{"snapshot", "milestone", "final", "jre", "rcN", "prerelease", ""} {
		if published[f] == 0 || required[f] == 0 {
			t.Errorf("flavour %q: %d published versions, %d soft requirements on one", f, published[f], required[f])
		}
	}
}

// TestSelfChains: a manifest with a chain of local parent poms (GenConfig.PomChains) reads
// back, through scalibr's reader, as exactly the flat requirement lists of the model, with the
// model's root coordinates, and resolves to the same graph as the flat manifest.
func TestSelfChains(t *testing.T) {
	chains, depth2, inherit, inAncestor := 0, 0, 0, 0
	forms := map[string]int{}
	rapid.Check(t, func(rt *rapid.T) {
		cfg := DefaultConfig(Maven)
		cfg.UnknownReqs = false
		cfg.PomChains = 80
		cfg.DevShared = 40
		s := GenScenario(rt, cfg)
		if s.Manifest.Chain == nil {
			return
		}
		c := s.Manifest.Chain
		if err := c.Check(); err != nil {
			rt.Fatal(err)
		}
		chains++
		if len(c.Ancestors) == 2 {
			depth2++
			if c.InheritsBelow(1) {
				inherit++
			}
		}
		from, rel := c.Path, c.ParentRel
		for _, a := range c.Ancestors {
			forms[LinkFormName(from, rel, a.Path)]++
			from, rel = a.Path, a.ParentRel
		}
		w, err := s.Materialise(0)
		if err != nil {
			rt.Fatalf("materialise: %v", err)
		}
		defer w.Close()
		path, err := w.WriteManifest(s.Manifest)
		if err != nil {
			rt.Fatal(err)
		}
		dump := func() string {
			out := ""
			for _, f := range s.Manifest.Files() {
				out += "== " + f.Path + "\n" + string(f.Data)
			}
			return out
		}
		fsys, rel2 := FSFor(path)
		reqs, err := verifhooks.ReadManifest(w.System, fsys, rel2)
		if err != nil {
			rt.Fatalf("read back: %v\n%s", err, dump())
		}
		if len(reqs) != len(s.Manifest.Deps)+len(s.Manifest.Management) {
			rt.Fatalf("read back %d requirements, model has %d+%d\n%s", len(reqs), len(s.Manifest.Deps), len(s.Manifest.Management), dump())
		}
		for _, r := range reqs {
			u := UpdateOf(resultUpdate(r))
			m := s.Manifest.Find(u)
			if m == nil || m.Req != r.Req.Version {
				rt.Fatalf("read back %v: model has %+v\n%s", r.Req, m, dump())
			}
			if m.Level > 0 {
				inAncestor++
			}
			if !u.Management {
				isTest := false
				for _, g := range r.Groups {
					isTest = isTest || g == "test"
				}
				if isTest != s.Manifest.DevScoped(u.Name, "") {
					rt.Fatalf("read back %v with groups %v: model says test = %v\n%s", r.Req, r.Groups, !isTest, dump())
				}
			}
		}
		g1, err := w.Resolve(context.Background(), path, options.ResolutionOptions{})
		if err != nil {
			rt.Fatalf("resolve: %v\n%s", err, dump())
		}
		if got, want := g1.Nodes[0].Version.Name+"@"+g1.Nodes[0].Version.Version, s.Manifest.Name+"@"+s.Manifest.Version; got != want {
			rt.Fatalf("root of the resolved graph is %s, the model says %s\n%s", got, want, dump())
		}
		flat := s.Manifest.Clone()
		flat.Chain = nil
		g2, err := w.ResolveModel(context.Background(), flat, options.ResolutionOptions{})
		if err != nil {
			rt.Fatalf("resolve flat: %v", err)
		}
		nodes := func(g *resolve.Graph) map[string]bool {
			out := map[string]bool{}
			for _, n := range g.Nodes[1:] {
				out[n.Version.Name+"@"+n.Version.Version] = true
			}
			return out
		}
		if a, b := nodes(g1), nodes(g2); !reflect.DeepEqual(a, b) {
			// (the order of the direct dependencies differs between the two renderings, which
			// may pick other versions where two paths disagree: counted, not failed)
			rt.Logf("chain and flat manifest resolve to different node sets: %v vs %v", a, b)
		}
	})
	t.Logf("chains %d, depth two %d (inheriting middle pom %d), requirements read from an ancestor %d, link forms %v", chains, depth2, inherit, inAncestor, forms)
	if chains == 0 || depth2 == 0 || inherit == 0 || inAncestor == 0 || len(forms) < 6 {
		t.Fatalf("chain generator had no effect")
	}
}
