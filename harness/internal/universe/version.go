// Package universe generates small, self-contained dependency worlds for the guided
// remediation checks (C11, C12, C16): a deps.dev resolve.LocalClient universe kept as text in
// the resolve/schema grammar, a manifest (package.json or pom.xml) kept as a small model with
// its own renderer, OSV records kept as OSV JSON, and upgrade-level configurations. It also
// holds the reference models the oracles need and that must not be shared with the code under
// test: a version order and major/minor/patch classifier over the generated version grammar,
// a Maven requirement matcher, and the OSV evaluation of DESIGN Appendix A.4 wrapped as a
// matcher.VulnerabilityMatcher.
//
// Everything a check needs to re-run a case is JSON-serialisable (Universe, Manifest, OSV,
// Levels, Scenario); generators only draw from *rapid.T.
package universe

import (
	"fmt"
	"regexp"
	"strconv"
)

// System names used in cases (JSON).
const (
	NPM   = "npm"
	Maven = "maven"
)

// Ver is an abstract version of the generated grammar
//
//	npm:   M.m.p[-(alpha|beta|rc)[.N]]
//	Maven: M.m[.p][-(alpha|beta|rc)[-N]]       (M.m is M.m.0)
//	Maven flavours (GenConfig.MavenFlavours): M.m[.p] followed by one of
//	       -SNAPSHOT | -M<N> | -(alpha|beta|rc)<N> | .Final | -jre
//
// on which major/minor/patch and the order are unambiguous in both ecosystems.
type Ver struct {
	Major, Minor, Patch int
	Pre                 int  // 0 release, 1 alpha, 2 beta, 3 rc
	PreNum              int  // 0 none, else N >= 1
	Short               bool // Maven only: rendered with two components (Patch must be 0)
	// Flav (Maven only) is one of the Flav* qualifier flavours; it excludes Pre != 0.
	Flav int
	// Tight (Maven only, Pre != 0, PreNum >= 1): the number follows the qualifier without a
	// hyphen ("-rc1"), which Maven reads as "-rc-1".
	Tight bool
}

// Qualifier flavours of Maven versions beyond alpha/beta/rc. Maven's order of the qualifiers
// of one numeric triple (ComparableVersion) is
//
//	alpha < beta < milestone < rc < snapshot < "" = final < (unknown qualifiers, e.g. jre)
const (
	FlavNone      = iota
	FlavSnapshot  // -SNAPSHOT
	FlavMilestone // -M<PreNum>, PreNum >= 1
	FlavFinal     // .Final: the release itself, spelled the JBoss way
	FlavJre       // -jre: an unknown qualifier, sorts after the release
)

// IsRelease reports whether the version is a plain release (no pre-release, no flavour).
func (v Ver) IsRelease() bool { return v.Pre == 0 && v.Flav == FlavNone }

// FlavourName names the qualifier flavour of a version for class counters ("" for a plain
// release).
func (v Ver) FlavourName() string {
	switch {
	case v.Flav == FlavSnapshot:
		return "snapshot"
	case v.Flav == FlavMilestone:
		return "milestone"
	case v.Flav == FlavFinal:
		return "final"
	case v.Flav == FlavJre:
		return "jre"
	case v.Pre != 0 && v.Tight:
		return preNames[v.Pre] + "N"
	case v.Pre != 0:
		return "prerelease"
	}
	return ""
}

var preNames = []string{"", "alpha", "beta", "rc"}

// Render prints the version in the spelling of the system.
func (v Ver) Render(system string) string {
	s := strconv.Itoa(v.Major) + "." + strconv.Itoa(v.Minor)
	if !(system == Maven && v.Short && v.Patch == 0) {
		s += "." + strconv.Itoa(v.Patch)
	}
	if system == Maven {
		switch v.Flav {
		case FlavSnapshot:
			return s + "-SNAPSHOT"
		case FlavMilestone:
			return s + "-M" + strconv.Itoa(v.PreNum)
		case FlavFinal:
			return s + ".Final"
		case FlavJre:
			return s + "-jre"
		}
	}
	if v.Pre != 0 {
		s += "-" + preNames[v.Pre]
		if v.PreNum > 0 {
			switch {
			case system == Maven && v.Tight:
				s += strconv.Itoa(v.PreNum)
			case system == Maven:
				s += "-" + strconv.Itoa(v.PreNum)
			default:
				s += "." + strconv.Itoa(v.PreNum)
			}
		}
	}
	return s
}

var verRE = regexp.MustCompile(`^(\d+)\.(\d+)(?:\.(\d+))?(?:-(alpha|beta|rc)(?:([.-]?)(\d+))?|-(SNAPSHOT)|-M([1-9]\d*)|\.(Final)|-(jre))?$`)

// ParseVer parses a version of the generated grammar (either spelling).
func ParseVer(s string) (Ver, bool) {
	m := verRE.FindStringSubmatch(s)
	if m == nil {
		return Ver{}, false
	}
	var v Ver
	v.Major, _ = strconv.Atoi(m[1])
	v.Minor, _ = strconv.Atoi(m[2])
	if m[3] == "" {
		v.Short = true
	} else {
		v.Patch, _ = strconv.Atoi(m[3])
	}
	switch m[4] {
	case "alpha":
		v.Pre = 1
	case "beta":
		v.Pre = 2
	case "rc":
		v.Pre = 3
	}
	if m[6] != "" {
		v.PreNum, _ = strconv.Atoi(m[6])
		v.Tight = m[5] == ""
	}
	switch {
	case m[7] != "":
		v.Flav = FlavSnapshot
	case m[8] != "":
		v.Flav = FlavMilestone
		v.PreNum, _ = strconv.Atoi(m[8])
	case m[9] != "":
		v.Flav = FlavFinal
	case m[10] != "":
		v.Flav = FlavJre
	}
	return v, true
}

func sgn(a, b int) int {
	switch {
	case a < b:
		return -1
	case a > b:
		return 1
	}
	return 0
}

// Compare is the reference order: numeric triple, then pre-release < release, then
// alpha < beta < rc, then the pre-release number (none < 1 < 2 ...). With the Maven flavours:
// alpha < beta < milestone < rc < snapshot < release = .Final < -jre (cross-checked against
// the Maven reference comparator of internal/vergram by Index and by the self-tests).
func (v Ver) Compare(o Ver) int {
	if c := sgn(v.Major, o.Major); c != 0 {
		return c
	}
	if c := sgn(v.Minor, o.Minor); c != 0 {
		return c
	}
	if c := sgn(v.Patch, o.Patch); c != 0 {
		return c
	}
	rank := func(x Ver) int {
		switch {
		case x.Flav == FlavMilestone:
			return 25
		case x.Flav == FlavSnapshot:
			return 40
		case x.Flav == FlavJre:
			return 100
		case x.Pre != 0:
			return 10 * x.Pre
		}
		return 99 // release, .Final
	}
	if c := sgn(rank(v), rank(o)); c != 0 {
		return c
	}
	return sgn(v.PreNum, o.PreNum)
}

// CompareStr compares two version strings of the generated grammar; ok is false when one of
// them is outside the grammar.
func CompareStr(a, b string) (c int, ok bool) {
	va, oka := ParseVer(a)
	vb, okb := ParseVer(b)
	if !oka || !okb {
		return 0, false
	}
	return va.Compare(vb), true
}

// DiffClass is the most significant component in which two versions differ.
type DiffClass int

// Difference classes, from least to most significant.
const (
	DiffSame  DiffClass = iota
	DiffSub             // same M.m.p, different pre-release / qualifier
	DiffPatch           // patch differs
	DiffMinor           // minor differs
	DiffMajor           // major differs
)

func (d DiffClass) String() string {
	return [...]string{"same", "sub", "patch", "minor", "major"}[d]
}

// Classify is the reference major/minor/patch classifier.
func Classify(a, b Ver) DiffClass {
	switch {
	case a.Major != b.Major:
		return DiffMajor
	case a.Minor != b.Minor:
		return DiffMinor
	case a.Patch != b.Patch:
		return DiffPatch
	case a.Pre != b.Pre || a.PreNum != b.PreNum || a.Flav != b.Flav:
		return DiffSub
	}
	return DiffSame
}

// Level names of an upgrade configuration.
const (
	LevelMajor = "major"
	LevelMinor = "minor"
	LevelPatch = "patch"
	LevelNone  = "none"
)

// LevelAllows is the reference statement of "no more than the configured level": major
// allows everything, minor everything but a major change, patch only patch and
// pre-release/qualifier changes, none nothing (not even a pre-release change).
func LevelAllows(level string, d DiffClass) bool {
	if d == DiffSame {
		return true
	}
	switch level {
	case LevelMajor:
		return true
	case LevelMinor:
		return d != DiffMajor
	case LevelPatch:
		return d == DiffPatch || d == DiffSub
	}
	return false
}

// MavenReqMatches evaluates a Maven requirement of the generated forms against a version:
// soft requirement "1.2.3" (matches exactly that version), "[1.2.3]", "[a,b)", "[a,b]",
// "(a,b)", "(a,b]", "[a,)", "(a,)", "(,b]", "(,b)". ok is false for any other form.
func MavenReqMatches(req string, v Ver) (match, ok bool) {
	if len(req) == 0 {
		return false, false
	}
	if req[0] != '[' && req[0] != '(' {
		r, ok := ParseVer(req)
		if !ok {
			return false, false
		}
		return r.Compare(v) == 0, true
	}
	if len(req) < 3 {
		return false, false
	}
	open, closeB := req[0], req[len(req)-1]
	if closeB != ']' && closeB != ')' {
		return false, false
	}
	body := req[1 : len(req)-1]
	comma := -1
	for i := 0; i < len(body); i++ {
		if body[i] == ',' {
			if comma >= 0 {
				return false, false // unions are not generated
			}
			comma = i
		}
	}
	if comma < 0 {
		if open != '[' || closeB != ']' {
			return false, false
		}
		r, ok := ParseVer(body)
		if !ok {
			return false, false
		}
		return r.Compare(v) == 0, true
	}
	lo, hi := body[:comma], body[comma+1:]
	if lo != "" {
		l, ok := ParseVer(lo)
		if !ok {
			return false, false
		}
		c := v.Compare(l)
		if c < 0 || (c == 0 && open == '(') {
			return false, true
		}
	}
	if hi != "" {
		h, ok := ParseVer(hi)
		if !ok {
			return false, false
		}
		c := v.Compare(h)
		if c > 0 || (c == 0 && closeB == ')') {
			return false, true
		}
	}
	return true, true
}

// IsMavenRange reports whether a Maven requirement is a range/hard requirement.
func IsMavenRange(req string) bool {
	return len(req) > 0 && (req[0] == '[' || req[0] == '(')
}

func mustParse(s string) Ver {
	v, ok := ParseVer(s)
	if !ok {
		panic(fmt.Sprintf("universe: version %q outside the generated grammar", s))
	}
	return v
}
