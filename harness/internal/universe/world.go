package universe

import (
	"context"
	"fmt"
	"os"
	"path/filepath"

	"deps.dev/util/resolve"
	"deps.dev/util/resolve/dep"
	scalibrfs "github.com/google/osv-scalibr/fs"
	"github.com/google/osv-scalibr/guidedremediation/options"
	"github.com/google/osv-scalibr/guidedremediation/verifhooks"
)

// World is a materialised Scenario: a scratch directory, the resolve client (call-counting,
// serialising wrapper around a fresh LocalClient), the reference matcher and the index.
type World struct {
	Scenario Scenario
	System   resolve.System
	Index    *Index
	Client   *CountingClient // handed to the code under test (budgeted)
	Oracle   *CountingClient // same universe, unbudgeted: used by the oracle's own resolutions
	Matcher  *Matcher
	Dir      string // scratch directory, removed by Close
	n        int
}

// Materialise builds the client and the matcher and creates a scratch directory below
// $VERIF_SCRATCH (or the default temp dir). budget bounds the number of resolve-client calls
// (<= 0: unlimited).
func (s Scenario) Materialise(budget int64) (*World, error) {
	ix, err := s.Universe.Index()
	if err != nil {
		return nil, err
	}
	lc, err := s.Universe.Client()
	if err != nil {
		return nil, err
	}
	m, err := NewMatcher(s.Vulns)
	if err != nil {
		return nil, err
	}
	base := os.Getenv("VERIF_SCRATCH")
	if base != "" {
		base = filepath.Join(base, "tmp")
		if err := os.MkdirAll(base, 0o755); err != nil {
			return nil, err
		}
	}
	dir, err := os.MkdirTemp(base, "grem-")
	if err != nil {
		return nil, err
	}
	return &World{Scenario: s, System: ResolveSystem(s.Universe.System), Index: ix, Client: NewCountingClient(lc, budget), Oracle: NewCountingClient(lc, 0), Matcher: m, Dir: dir}, nil
}

// Close removes the scratch directory.
func (w *World) Close() { _ = os.RemoveAll(w.Dir) }

// DefaultBudget is the resolve-client call budget of DESIGN C11: 1000 x (#package versions),
// at least 100 000.
func (s Scenario) DefaultBudget() int64 {
	ix, err := s.Universe.Index()
	if err != nil {
		return 100000
	}
	return max(100000, 1000*int64(ix.Size()))
}

// WriteManifest renders a manifest (the harness's own renderer) into a fresh sub-directory
// of the scratch directory and returns its absolute path.
func (w *World) WriteManifest(m Manifest) (string, error) {
	w.n++
	d := filepath.Join(w.Dir, fmt.Sprintf("m%d", w.n))
	if err := os.MkdirAll(d, 0o755); err != nil {
		return "", err
	}
	return m.WriteTo(d)
}

// FSFor returns the file system and the path inside it through which a manifest file on disk
// is handed to scalibr's readers: the root of the volume and the path relative to it, as
// guidedremediation.FixVulns itself does, so that a pom.xml can reach its local parent poms in
// directories above it.
func FSFor(path string) (scalibrfs.FS, string) {
	abs, err := filepath.Abs(path)
	if err != nil {
		return scalibrfs.DirFS(filepath.Dir(path)), filepath.Base(path)
	}
	root := filepath.VolumeName(abs) + string(filepath.Separator)
	rel, err := filepath.Rel(root, abs)
	if err != nil {
		return scalibrfs.DirFS(filepath.Dir(path)), filepath.Base(path)
	}
	return scalibrfs.DirFS(root), filepath.ToSlash(rel)
}

// Resolve resolves the manifest file at an absolute path with scalibr's reader and resolver.
func (w *World) Resolve(ctx context.Context, path string, opts options.ResolutionOptions) (*resolve.Graph, error) {
	fsys, rel := FSFor(path)
	return verifhooks.ResolveManifestFile(ctx, w.Oracle, w.System, fsys, rel, opts)
}

// ResolveModel renders and resolves a manifest model.
func (w *World) ResolveModel(ctx context.Context, m Manifest, opts options.ResolutionOptions) (*resolve.Graph, error) {
	p, err := w.WriteManifest(m)
	if err != nil {
		return nil, err
	}
	return w.Resolve(ctx, p, opts)
}

// ResolvedVersions returns the distinct versions a package has in a graph: for a direct
// requirement (direct == true; alias is the npm alias, if any) the nodes the root's edges
// point to, otherwise every node of that package.
func ResolvedVersions(g *resolve.Graph, name, alias string, direct bool) []string {
	seen := map[string]bool{}
	var out []string
	add := func(v string) {
		if !seen[v] {
			seen[v] = true
			out = append(out, v)
		}
	}
	if direct {
		for _, e := range g.Edges {
			if e.From != 0 {
				continue
			}
			n := g.Nodes[e.To]
			if n.Version.Name != name {
				continue
			}
			ka, _ := e.Type.GetAttr(dep.KnownAs)
			if ka != alias {
				continue
			}
			add(n.Version.Version)
		}
		return out
	}
	for i, n := range g.Nodes {
		if i == 0 {
			continue
		}
		if n.Version.Name == name {
			add(n.Version.Version)
		}
	}
	return out
}

// GraphVulnIDs is the reference model's unfiltered vulnerability set of a resolved graph: the
// ids of the records that affect (reference evaluator Affected) at least one non-root node.
func GraphVulnIDs(g *resolve.Graph, recs []OSV, system string) map[string]bool {
	eco := Ecosystem(system)
	out := map[string]bool{}
	for i, n := range g.Nodes {
		if i == 0 {
			continue
		}
		for _, r := range recs {
			if !out[r.ID] && Affected(r, eco, n.Version.Name, n.Version.Version) {
				out[r.ID] = true
			}
		}
	}
	return out
}
