// Package vergram holds, for property C07, the per-ecosystem version grammars (generators
// of grammar-valid and of canonical versions, and recognisers for both), the generators of
// arbitrary version-like strings, and independent reference comparators written from the
// ecosystems' published ordering rules.
package vergram

import (
	"bufio"
	"os"
	"path/filepath"
	"sort"
	"strings"
	"sync"
)

// Ecosystems are the names accepted by semantic.Parse at the pinned commit (parse.go).
var Ecosystems = []string{
	"Alpine", "ConanCenter", "CRAN", "crates.io", "Debian", "Go", "Hex", "Maven", "npm",
	"NuGet", "Packagist", "Pub", "PyPI", "Red Hat", "RubyGems", "Ubuntu",
}

// Family maps an ecosystem name to the grammar family it uses.
func Family(eco string) string {
	switch eco {
	case "Alpine":
		return "alpine"
	case "CRAN":
		return "cran"
	case "Debian", "Ubuntu":
		return "debian"
	case "Maven":
		return "maven"
	case "NuGet":
		return "nuget"
	case "Packagist":
		return "packagist"
	case "PyPI":
		return "pypi"
	case "Red Hat":
		return "redhat"
	case "RubyGems":
		return "rubygems"
	case "ConanCenter", "crates.io", "Go", "Hex", "npm", "Pub":
		return "semver"
	}
	return ""
}

// fixtureFiles lists the fixture files of /repo/semantic/testdata per family.
var fixtureFiles = map[string][]string{
	"alpine":    {"alpine-versions.txt", "alpine-versions-generated.txt"},
	"cran":      {"cran-versions.txt", "cran-versions-generated.txt"},
	"debian":    {"debian-versions.txt", "debian-versions-generated.txt"},
	"maven":     {"maven-versions.txt", "maven-versions-generated.txt"},
	"nuget":     {"nuget-versions.txt"},
	"packagist": {"packagist-versions.txt", "packagist-versions-generated.txt"},
	"pypi":      {"pypi-versions.txt", "pypi-versions-generated.txt"},
	"redhat":    {"redhat-versions.txt"},
	"rubygems":  {"rubygems-versions.txt", "rubygems-versions-generated.txt"},
	"semver":    {"semver-versions.txt"},
}

// FixtureLine is one "a op b" line of a fixture file.
type FixtureLine struct {
	A, Op, B string
	File     string
}

// RepoDir is the repository the harness was built against.
func RepoDir() string {
	if d := os.Getenv("VERIF_REPO_OVERRIDE"); d != "" {
		return d
	}
	return "/repo"
}

var (
	fixMu    sync.Mutex
	fixLines = map[string][]FixtureLine{}
	fixStrs  = map[string][]string{}
	fixDone  = map[string]bool{}
)

func loadFixtures(fam string) {
	fixMu.Lock()
	defer fixMu.Unlock()
	if fixDone[fam] {
		return
	}
	fixDone[fam] = true
	seen := map[string]bool{}
	for _, fn := range fixtureFiles[fam] {
		f, err := os.Open(filepath.Join(RepoDir(), "semantic", "testdata", fn))
		if err != nil {
			continue
		}
		sc := bufio.NewScanner(f)
		sc.Buffer(make([]byte, 1<<20), 1<<20)
		for sc.Scan() {
			line := sc.Text()
			if line == "" || strings.HasPrefix(line, "# ") || strings.HasPrefix(line, "// ") || line == "#" {
				continue
			}
			p := strings.Split(line, " ")
			if len(p) != 3 || (p[1] != "<" && p[1] != "=" && p[1] != ">") {
				continue
			}
			fixLines[fam] = append(fixLines[fam], FixtureLine{A: p[0], Op: p[1], B: p[2], File: fn})
			seen[p[0]] = true
			seen[p[2]] = true
		}
		f.Close()
	}
	strs := make([]string, 0, len(seen))
	for s := range seen {
		strs = append(strs, s)
	}
	sort.Strings(strs)
	fixStrs[fam] = strs
}

// FixtureLines returns the comparison lines of the repository's own fixtures for a family.
func FixtureLines(fam string) []FixtureLine {
	loadFixtures(fam)
	return fixLines[fam]
}

// FixtureStrings returns the sorted distinct version strings of the family's fixtures.
func FixtureStrings(fam string) []string {
	loadFixtures(fam)
	return fixStrs[fam]
}
