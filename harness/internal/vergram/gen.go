package vergram

import (
	"strconv"
	"strings"

	"pgregory.net/rapid"
)

// Suf is one suffix group of a version: separator, tag, separator, number (any may be "").
type Suf struct{ Sep, Tag, Sep2, Num string }

// Ver is the structured form every grammar generates; String renders it. Generating and
// mutating the structure keeps derived versions inside the grammar and makes the versions
// of a pair / triple share prefixes.
type Ver struct {
	Lead   string
	Epoch  string // with its separator
	Nums   []string
	Seps   []string // len(Nums)-1
	Letter string
	Sufs   []Suf
	Local  string // with its introducer
	Rev    string // with its introducer
	Trail  string
}

func (v Ver) String() string {
	var b strings.Builder
	b.WriteString(v.Lead)
	b.WriteString(v.Epoch)
	for i, n := range v.Nums {
		if i > 0 {
			b.WriteString(v.Seps[i-1])
		}
		b.WriteString(n)
	}
	b.WriteString(v.Letter)
	for _, s := range v.Sufs {
		b.WriteString(s.Sep + s.Tag + s.Sep2 + s.Num)
	}
	b.WriteString(v.Local)
	b.WriteString(v.Rev)
	b.WriteString(v.Trail)
	return b.String()
}

func (v Ver) clone() Ver {
	w := v
	w.Nums = append([]string(nil), v.Nums...)
	w.Seps = append([]string(nil), v.Seps...)
	w.Sufs = append([]Suf(nil), v.Sufs...)
	return w
}

// ---- numbers ----

type numKind struct{ zeros, big bool }

var smallNums = []string{"0", "1", "2", "3", "9", "10", "11", "12", "20", "99", "100"}

var bigNums = []string{
	"2147483648", "4294967296",
	"9223372036854775807", "9223372036854775808", "18446744073709551615", "18446744073709551616",
	"99999999999999999999", "100000000000000000000", "100000000000000000001",
	"1234567890123456789012345678901234567890", "99999999999999999999999999999999999999",
}

func pick(t *rapid.T, xs []string) string { return rapid.SampledFrom(xs).Draw(t, "pick") }
func oneIn(t *rapid.T, n int) bool        { return rapid.IntRange(0, n-1).Draw(t, "oneIn") == 0 }
func upTo(t *rapid.T, lo, hi int) int     { return rapid.IntRange(lo, hi).Draw(t, "n") }

func randDigits(t *rapid.T, lo, hi int) string {
	n := upTo(t, lo, hi)
	var b strings.Builder
	b.WriteByte(byte('1' + upTo(t, 0, 8)))
	for i := 1; i < n; i++ {
		b.WriteByte(byte('0' + upTo(t, 0, 9)))
	}
	return b.String()
}

func genNum(t *rapid.T, k numKind) string {
	c := upTo(t, 0, 19)
	switch {
	case c < 10:
		return pick(t, smallNums)
	case c < 13:
		return strconv.Itoa(upTo(t, 0, 99999))
	case c < 16 && k.zeros:
		return strings.Repeat("0", upTo(t, 1, 2)) + pick(t, smallNums)
	case c >= 16 && c < 19 && k.big:
		if oneIn(t, 2) {
			return pick(t, bigNums)
		}
		return randDigits(t, 20, 40)
	case c == 19 && k.zeros && k.big:
		return "0" + pick(t, bigNums)
	}
	return pick(t, smallNums)
}

var canonNums = []string{"0", "1", "2", "3", "9", "10", "11", "12", "20", "99", "100", "2147483647"}

// genCanonNum draws a number without leading zeros that fits in an int32 (every reference
// comparator and every ecosystem's native integer type can hold it).
func genCanonNum(t *rapid.T) string {
	if upTo(t, 0, 3) != 0 {
		return pick(t, canonNums)
	}
	return strconv.Itoa(upTo(t, 0, 2147483647))
}

// ---- grammars ----

type grammar struct {
	lead    func(*rapid.T) string
	epoch   func(*rapid.T) string
	minNums int
	maxNums int
	sep     func(*rapid.T) string
	num     func(t *rapid.T, idx int) string
	letter  func(*rapid.T) string
	sufs    func(*rapid.T) []Suf
	local   func(*rapid.T) string
	rev     func(*rapid.T) string
	trail   func(*rapid.T) string
	swapTag bool // a suffix tag may be replaced by any other tag of the pool
	// fields whose ASCII letters may change case without leaving the grammar
	caseTag, caseLocal, caseRev bool
	fix                         func(*Ver)          // re-establishes cross-field constraints after a mutation
	pairFix                     func(a Ver, b *Ver) // canonical legs: constraints between the versions of a pair
}

func str(f func(*rapid.T) string, t *rapid.T) string {
	if f == nil {
		return ""
	}
	return f(t)
}

func dot(*rapid.T) string { return "." }

func (g *grammar) gen(t *rapid.T) Ver {
	var v Ver
	v.Lead = str(g.lead, t)
	v.Epoch = str(g.epoch, t)
	n := upTo(t, g.minNums, g.maxNums)
	for i := 0; i < n; i++ {
		v.Nums = append(v.Nums, g.num(t, i))
		if i > 0 {
			v.Seps = append(v.Seps, g.sep(t))
		}
	}
	v.Letter = str(g.letter, t)
	if g.sufs != nil {
		v.Sufs = g.sufs(t)
	}
	v.Local = str(g.local, t)
	v.Rev = str(g.rev, t)
	v.Trail = str(g.trail, t)
	if g.fix != nil {
		g.fix(&v)
	}
	return v
}

// mutate derives a version of the same grammar that shares most of its structure with v.
func (g *grammar) mutate(t *rapid.T, v0 Ver) Ver {
	v := v0.clone()
	for k := upTo(t, 1, 2); k > 0; k-- {
		switch upTo(t, 0, 11) {
		case 0, 1: // change one number
			i := upTo(t, 0, len(v.Nums)-1)
			v.Nums[i] = g.num(t, i)
		case 2: // append a number (often a zero: padding rules)
			if len(v.Nums) < g.maxNums {
				nn := "0"
				if oneIn(t, 2) {
					nn = g.num(t, len(v.Nums))
				}
				v.Nums = append(v.Nums, nn)
				v.Seps = append(v.Seps, g.sep(t))
			}
		case 3: // drop the last number
			if len(v.Nums) > g.minNums {
				v.Nums = v.Nums[:len(v.Nums)-1]
				v.Seps = v.Seps[:len(v.Seps)-1]
			}
		case 4, 5: // new suffixes
			if g.sufs != nil {
				v.Sufs = g.sufs(t)
			}
		case 6: // drop the last suffix
			if len(v.Sufs) > 0 {
				v.Sufs = v.Sufs[:len(v.Sufs)-1]
			}
		case 7:
			v.Local = str(g.local, t)
		case 8:
			v.Rev = str(g.rev, t)
		case 9:
			v.Epoch = str(g.epoch, t)
		case 10:
			v.Lead = str(g.lead, t)
			v.Letter = str(g.letter, t)
		case 11:
			if len(v.Seps) > 0 {
				v.Seps[upTo(t, 0, len(v.Seps)-1)] = g.sep(t)
			}
		}
	}
	if g.fix != nil {
		g.fix(&v)
	}
	return v
}

// ---- suffix helpers ----

func optNum(t *rapid.T, k numKind, seps []string) (string, string) {
	if oneIn(t, 4) {
		return "", ""
	}
	return pick(t, seps), genNum(t, k)
}

// semver ------------------------------------------------------------------------------

var semverIDs = []string{"alpha", "beta", "rc", "a", "b", "pre", "dev", "SNAPSHOT", "Alpha", "x", "rc1", "rc2",
	"0a", "alpha1", "1a", "a-b", "-", "--", "-1", "x-1-y", "0-0", "00a", "z"}
var semverCanonIDs = []string{"alpha", "beta", "rc", "a", "b", "pre", "dev", "A", "Beta", "RC", "x7z", "rc1", "rc2", "alpha1", "0a", "z"}
var buildIDs = []string{"build", "001", "sha", "5114f85", "exp-1", "20130313144700", "1", "0", "B"}

func semverPre(t *rapid.T, num func(*rapid.T) string, ids []string) []Suf {
	n := rapid.SampledFrom([]int{0, 0, 1, 1, 2, 3}).Draw(t, "npre")
	var out []Suf
	for i := 0; i < n; i++ {
		s := Suf{Sep: "."}
		if i == 0 {
			s.Sep = "-"
		}
		if oneIn(t, 2) {
			s.Tag = num(t)
		} else {
			s.Tag = pick(t, ids)
		}
		out = append(out, s)
	}
	return out
}

var canonBuildIDs = []string{"build", "001", "sha", "5114f85", "exp-1", "1", "0", "B"}

func semverBuildFrom(ids []string) func(*rapid.T) string {
	return func(t *rapid.T) string {
		if !oneIn(t, 4) {
			return ""
		}
		s := "+" + pick(t, ids)
		if oneIn(t, 2) {
			s += "." + pick(t, ids)
		}
		return s
	}
}

var (
	semverBuild      = semverBuildFrom(buildIDs)
	semverCanonBuild = semverBuildFrom(canonBuildIDs)
)

func semverLead(eco string) func(*rapid.T) string {
	return func(t *rapid.T) string {
		switch eco {
		case "Go":
			return "v"
		case "npm":
			if oneIn(t, 6) {
				return "v"
			}
		}
		return ""
	}
}

func semverValid(eco string) *grammar {
	k := numKind{zeros: false, big: true}
	return &grammar{
		swapTag: true, caseTag: true, caseLocal: true,
		lead: semverLead(eco), minNums: 3, maxNums: 3, sep: dot,
		num: func(t *rapid.T, _ int) string { return genNum(t, k) },
		sufs: func(t *rapid.T) []Suf {
			return semverPre(t, func(t *rapid.T) string { return genNum(t, k) }, semverIDs)
		},
		local: semverBuild,
	}
}

func semverCanon(eco string) *grammar {
	lead := func(*rapid.T) string { return "" }
	if eco == "Go" {
		lead = func(*rapid.T) string { return "v" }
	}
	return &grammar{
		swapTag: true, caseTag: true, caseLocal: true,
		lead: lead, minNums: 3, maxNums: 3, sep: dot,
		num:   func(t *rapid.T, _ int) string { return genCanonNum(t) },
		sufs:  func(t *rapid.T) []Suf { return semverPre(t, genCanonNum, semverCanonIDs) },
		local: semverCanonBuild,
	}
}

// NuGet -------------------------------------------------------------------------------

func nugetValid() *grammar {
	k := numKind{zeros: true, big: true}
	return &grammar{
		swapTag: true, caseTag: true, caseLocal: true,
		minNums: 2, maxNums: 4, sep: dot,
		num: func(t *rapid.T, _ int) string { return genNum(t, k) },
		sufs: func(t *rapid.T) []Suf {
			return semverPre(t, func(t *rapid.T) string { return genNum(t, numKind{big: true}) }, semverIDs)
		},
		local: semverBuild,
	}
}

func nugetCanon() *grammar {
	return &grammar{
		swapTag: true, caseTag: true, caseLocal: true,
		minNums: 2, maxNums: 4, sep: dot,
		num:   func(t *rapid.T, _ int) string { return genCanonNum(t) },
		sufs:  func(t *rapid.T) []Suf { return semverPre(t, genCanonNum, semverCanonIDs) },
		local: semverCanonBuild,
	}
}

// PyPI --------------------------------------------------------------------------------

var pypiLocalSegs = []string{"abc", "1", "local", "ubuntu", "001", "deadbeef", "a1", "10", "2", "ABC"}
var pypiCanonLocalSegs = []string{"abc", "1", "local", "ubuntu", "deadbeef", "a1", "10", "2", "0"}

func pypiValid() *grammar {
	k := numKind{zeros: true, big: true}
	seps := []string{"", "", ".", "-", "_"}
	return &grammar{
		caseTag: true, caseLocal: true,
		lead: func(t *rapid.T) string {
			return rapid.SampledFrom([]string{"", "", "", "", "", "v", "V", " "}).Draw(t, "lead")
		},
		epoch: func(t *rapid.T) string {
			return pick(t, []string{"", "", "", "", "0!", "1!", "2!", "01!", "99999999999999999999!"})
		},
		minNums: 1, maxNums: 4, sep: dot,
		num: func(t *rapid.T, _ int) string { return genNum(t, k) },
		sufs: func(t *rapid.T) []Suf {
			var out []Suf
			if oneIn(t, 3) {
				s := Suf{Sep: pick(t, seps), Tag: pick(t, []string{"a", "b", "rc", "c", "alpha", "beta", "pre", "preview", "RC", "Alpha", "A"})}
				s.Sep2, s.Num = optNum(t, k, seps)
				out = append(out, s)
			}
			if oneIn(t, 3) {
				if oneIn(t, 4) {
					out = append(out, Suf{Sep: "-", Num: genNum(t, k)})
				} else {
					s := Suf{Sep: pick(t, seps), Tag: pick(t, []string{"post", "rev", "r", "POST"})}
					s.Sep2, s.Num = optNum(t, k, seps)
					out = append(out, s)
				}
			}
			if oneIn(t, 3) {
				s := Suf{Sep: pick(t, seps), Tag: pick(t, []string{"dev", "dev", "DEV"})}
				s.Sep2, s.Num = optNum(t, k, seps)
				out = append(out, s)
			}
			return out
		},
		local: func(t *rapid.T) string {
			if !oneIn(t, 4) {
				return ""
			}
			s := "+" + pick(t, pypiLocalSegs)
			for n := upTo(t, 0, 2); n > 0; n-- {
				s += pick(t, []string{".", "-", "_"}) + pick(t, pypiLocalSegs)
			}
			return s
		},
		trail: func(t *rapid.T) string {
			if oneIn(t, 12) {
				return " "
			}
			return ""
		},
	}
}

func pypiCanon() *grammar {
	return &grammar{
		caseTag: true, caseLocal: true,
		epoch:   func(t *rapid.T) string { return pick(t, []string{"", "", "", "", "1!", "2!", "10!"}) },
		minNums: 1, maxNums: 4, sep: dot,
		num: func(t *rapid.T, _ int) string { return genCanonNum(t) },
		sufs: func(t *rapid.T) []Suf {
			var out []Suf
			if oneIn(t, 3) {
				out = append(out, Suf{Tag: pick(t, []string{"a", "b", "rc"}), Num: genCanonNum(t)})
			}
			if oneIn(t, 3) {
				out = append(out, Suf{Sep: ".", Tag: "post", Num: genCanonNum(t)})
			}
			if oneIn(t, 3) {
				out = append(out, Suf{Sep: ".", Tag: "dev", Num: genCanonNum(t)})
			}
			return out
		},
		local: func(t *rapid.T) string {
			if !oneIn(t, 4) {
				return ""
			}
			s := "+" + pick(t, pypiCanonLocalSegs)
			for n := upTo(t, 0, 2); n > 0; n-- {
				s += "." + pick(t, pypiCanonLocalSegs)
			}
			return s
		},
	}
}

// Maven -------------------------------------------------------------------------------

var mavenTags = []string{"alpha", "beta", "milestone", "rc", "cr", "snapshot", "ga", "final", "release", "sp",
	"a", "b", "m", "SNAPSHOT", "RC", "Final", "foo", "xyz", "jre", "android"}

// mavenValid is the standard Maven layout: a dotted numeric release followed by hyphen-
// or transition-separated qualifiers and numbers ("1.0.0-rc1", "2.1-SNAPSHOT", "1.0-1",
// "1.0.0-beta-2", "1.2.3jre8"). No '.' occurs after the first hyphen or letter: with
// ".qualifier" / ".number" tokens after a hyphen Maven's own ordering (ComparableVersion,
// reproduced by the repository's generated fixtures and by deps.dev) is not transitive
// (0.0.0.alpha < 0.0.0 < 0.0.0-1 < 0.0.0.alpha), so no preorder can be demanded there.
func mavenValid() *grammar {
	k := numKind{zeros: true, big: true}
	return &grammar{
		swapTag: true, caseTag: true,
		minNums: 1, maxNums: 4, sep: dot,
		num: func(t *rapid.T, _ int) string { return genNum(t, k) },
		sufs: func(t *rapid.T) []Suf {
			var out []Suf
			for n := rapid.SampledFrom([]int{0, 0, 1, 1, 1, 2, 3}).Draw(t, "nsuf"); n > 0; n-- {
				if oneIn(t, 4) {
					out = append(out, Suf{Sep: "-", Num: genNum(t, k)})
					continue
				}
				s := Suf{Sep: pick(t, []string{"-", "-", ""}), Tag: pick(t, mavenTags)}
				s.Sep2, s.Num = optNum(t, k, []string{"", "", "-"})
				out = append(out, s)
			}
			return out
		},
		fix: func(v *Ver) {
			// two qualifiers in a row need a hyphen between them to stay two tokens
			for i := 1; i < len(v.Sufs); i++ {
				if v.Sufs[i].Sep == "" && v.Sufs[i-1].Num == "" {
					v.Sufs[i].Sep = "-"
				}
			}
		},
	}
}

var mavenCanonTags = []string{"alpha", "beta", "milestone", "rc", "cr", "snapshot", "ga", "final", "sp",
	"a", "b", "m", "SNAPSHOT", "RC", "Final", "foo", "xyz", "jre"}

// mavenCanon: the standard layout of mavenValid with int32-sized numbers without leading
// zeros. (Outside the standard layout deps.dev and Maven's ComparableVersion disagree with
// each other, e.g. on "0-alpha" vs "0.sp", and deps.dev does not normalise "00".)
func mavenCanon() *grammar {
	return &grammar{
		swapTag: true, caseTag: true,
		minNums: 1, maxNums: 4, sep: dot,
		num: func(t *rapid.T, _ int) string { return genCanonNum(t) },
		sufs: func(t *rapid.T) []Suf {
			var out []Suf
			for n := rapid.SampledFrom([]int{0, 0, 1, 1, 1, 2}).Draw(t, "nsuf"); n > 0; n-- {
				if oneIn(t, 4) {
					out = append(out, Suf{Sep: "-", Num: genCanonNum(t)})
					continue
				}
				s := Suf{Sep: pick(t, []string{"-", "-", ""}), Tag: pick(t, mavenCanonTags)}
				if !oneIn(t, 3) {
					s.Sep2, s.Num = pick(t, []string{"", "", "-"}), genCanonNum(t)
				}
				out = append(out, s)
			}
			return out
		},
		fix: func(v *Ver) {
			for i := 1; i < len(v.Sufs); i++ {
				if v.Sufs[i].Sep == "" && v.Sufs[i-1].Num == "" {
					v.Sufs[i].Sep = "-"
				}
			}
		},
	}
}

// RubyGems ----------------------------------------------------------------------------

var gemTags = []string{"a", "b", "rc", "pre", "alpha", "beta", "RC", "x", "z", "dev", "preview"}

func rubygemsValid() *grammar {
	k := numKind{zeros: true, big: true}
	return &grammar{
		swapTag: true, caseTag: true,
		minNums: 1, maxNums: 5, sep: dot,
		num: func(t *rapid.T, _ int) string { return genNum(t, k) },
		sufs: func(t *rapid.T) []Suf {
			var out []Suf
			for n := rapid.SampledFrom([]int{0, 0, 1, 1, 1, 2, 3}).Draw(t, "nsuf"); n > 0; n-- {
				s := Suf{Sep: pick(t, []string{".", ".", "", "-"}), Tag: pick(t, gemTags)}
				s.Sep2, s.Num = optNum(t, k, []string{"", "."})
				out = append(out, s)
			}
			return out
		},
		fix: func(v *Ver) {
			// the first segment is purely numeric: "1a" is not a Gem::Version, "1.0a" is
			if len(v.Nums) == 1 && len(v.Sufs) > 0 && v.Sufs[0].Sep == "" {
				v.Sufs[0].Sep = "."
			}
		},
	}
}

func rubygemsCanon() *grammar {
	return &grammar{
		swapTag: true, caseTag: true,
		minNums: 1, maxNums: 5, sep: dot,
		num: func(t *rapid.T, _ int) string { return genCanonNum(t) },
		sufs: func(t *rapid.T) []Suf {
			if oneIn(t, 2) {
				return nil
			}
			s := Suf{Sep: ".", Tag: pick(t, []string{"a", "b", "rc", "pre", "alpha", "beta", "x", "z"})}
			if oneIn(t, 2) {
				s.Sep2, s.Num = pick(t, []string{"", "."}), genCanonNum(t)
			}
			return []Suf{s}
		},
	}
}

// Packagist ---------------------------------------------------------------------------

func packagistValid() *grammar {
	k := numKind{zeros: true, big: true}
	return &grammar{
		caseTag: true,
		lead:    func(t *rapid.T) string { return pick(t, []string{"", "", "", "v"}) },
		minNums: 1, maxNums: 4, sep: dot,
		num: func(t *rapid.T, _ int) string { return genNum(t, k) },
		sufs: func(t *rapid.T) []Suf {
			var out []Suf
			if oneIn(t, 2) {
				s := Suf{Sep: pick(t, []string{"-", "-", "", ".", "_"}), Tag: pick(t, []string{"beta", "b", "RC", "rc", "alpha", "a", "patch", "pl", "p", "BETA", "Alpha"})}
				s.Sep2, s.Num = optNum(t, k, []string{"", "", ".", "-"})
				out = append(out, s)
			}
			if oneIn(t, 5) {
				out = append(out, Suf{Sep: pick(t, []string{"-", ".", ""}), Tag: "dev"})
			}
			return out
		},
	}
}

func packagistCanon() *grammar {
	return &grammar{
		minNums: 3, maxNums: 3, sep: dot,
		num: func(t *rapid.T, _ int) string { return genCanonNum(t) },
		sufs: func(t *rapid.T) []Suf {
			switch upTo(t, 0, 5) {
			case 0, 1, 2:
				return nil
			case 3:
				return []Suf{{Sep: "-", Tag: "dev"}}
			}
			return []Suf{{Sep: "-", Tag: pick(t, []string{"alpha", "beta", "RC", "rc", "a", "b", "pl", "p", "patch"}), Num: genCanonNum(t)}}
		},
	}
}

// Debian / Ubuntu ---------------------------------------------------------------------

var debTags = []string{"", "a", "b", "rc", "dfsg", "git", "beta", "alpha", "ubuntu", "deb", "u", "pre", "svn", "z", "A", "Z", "really", "p"}
var debRevs = []string{"1", "0", "2", "10", "0ubuntu1", "1ubuntu2", "1ubuntu2.1", "1+b1", "1~bpo11+1", "2.1", "0.1", "00", "01",
	"1ubuntu0.20.04.1", "1~", "1~~", "1a", "1+", "99999999999999999999", "1build1", "1+deb11u1", "1+deb11u2"}

func debianValid() *grammar {
	k := numKind{zeros: true, big: true}
	return &grammar{
		swapTag: true, caseTag: true, caseRev: true,
		epoch:   func(t *rapid.T) string { return pick(t, []string{"", "", "", "", "0:", "1:", "2:", "10:", "01:"}) },
		minNums: 1, maxNums: 4, sep: dot,
		num: func(t *rapid.T, _ int) string { return genNum(t, k) },
		sufs: func(t *rapid.T) []Suf {
			var out []Suf
			for n := rapid.SampledFrom([]int{0, 0, 1, 1, 1, 2, 3}).Draw(t, "nsuf"); n > 0; n-- {
				s := Suf{Sep: pick(t, []string{"", ".", "+", "~", "~~", "-", "+~", "~+", "."}), Tag: pick(t, debTags)}
				if !oneIn(t, 3) {
					s.Num = genNum(t, k)
				}
				out = append(out, s)
			}
			return out
		},
		rev: func(t *rapid.T) string {
			if oneIn(t, 3) {
				return ""
			}
			return "-" + pick(t, debRevs)
		},
		fix: func(v *Ver) {
			// a hyphen in the upstream version is only allowed when a revision is present
			if v.Rev == "" {
				for i := range v.Sufs {
					if v.Sufs[i].Sep == "-" {
						v.Sufs[i].Sep = "+"
					}
				}
			}
		},
	}
}

// Red Hat -----------------------------------------------------------------------------

var rpmTags = []string{"", "a", "b", "rc", "git", "beta", "el", "fc", "p", "post", "z", "A", "Z", "alpha"}
var rpmRels = []string{"1", "2", "0", "10", "01", "1.el8", "1.el8_3", "1.el8_10", "0.1.rc1", "3.fc30", "1.el7.centos", "1~bootstrap",
	"1^post1", "1.el9", "2.el8", "99999999999999999999", "1.a", "1.1", "1a"}

func redhatValid() *grammar {
	k := numKind{zeros: true, big: true}
	return &grammar{
		swapTag: true, caseTag: true, caseRev: true,
		epoch:   func(t *rapid.T) string { return pick(t, []string{"", "", "", "", "0:", "1:", "2:", "10:"}) },
		minNums: 1, maxNums: 4, sep: dot,
		num: func(t *rapid.T, _ int) string { return genNum(t, k) },
		sufs: func(t *rapid.T) []Suf {
			var out []Suf
			for n := rapid.SampledFrom([]int{0, 0, 1, 1, 1, 2, 3}).Draw(t, "nsuf"); n > 0; n-- {
				s := Suf{Sep: pick(t, []string{"", ".", "_", "+", "~", "^", "."}), Tag: pick(t, rpmTags)}
				if s.Tag == "" || !oneIn(t, 3) {
					s.Num = genNum(t, k)
				}
				if s.Tag == "" && s.Sep == "" {
					s.Sep = "."
				}
				out = append(out, s)
			}
			return out
		},
		rev: func(t *rapid.T) string {
			if oneIn(t, 3) {
				return ""
			}
			return "-" + pick(t, rpmRels)
		},
	}
}

func redhatCanon() *grammar {
	g := redhatValid()
	// rpm itself has two readings of a missing release (rpmverCmp: older than any release;
	// dependency matching: wildcard): canonical pairs have a release on both sides or on neither.
	g.pairFix = func(a Ver, b *Ver) {
		if (a.Rev == "") != (b.Rev == "") {
			if a.Rev == "" {
				b.Rev = ""
			} else {
				b.Rev = a.Rev
			}
		}
	}
	return g
}

// Alpine ------------------------------------------------------------------------------

var apkSufs = []string{"alpha", "beta", "pre", "rc", "cvs", "svn", "git", "hg", "p"}

func alpineGrammar(canon bool) *grammar {
	k := numKind{zeros: true, big: true}
	g := &grammar{
		swapTag: true,
		minNums: 1, maxNums: 4, sep: dot,
		num: func(t *rapid.T, i int) string {
			if canon {
				return genCanonNumBig(t)
			}
			return genNum(t, k)
		},
		letter: func(t *rapid.T) string { return pick(t, []string{"", "", "", "", "a", "b", "z"}) },
		sufs: func(t *rapid.T) []Suf {
			var out []Suf
			for n := rapid.SampledFrom([]int{0, 0, 0, 1, 1, 2}).Draw(t, "nsuf"); n > 0; n-- {
				s := Suf{Sep: "_", Tag: pick(t, apkSufs)}
				if !oneIn(t, 3) {
					if canon {
						s.Num = genCanonNumBig(t)
					} else {
						s.Num = genNum(t, k)
					}
				}
				out = append(out, s)
			}
			return out
		},
		rev: func(t *rapid.T) string {
			if oneIn(t, 2) {
				return ""
			}
			if canon {
				return "-r" + genCanonNumBig(t)
			}
			return "-r" + genNum(t, k)
		},
	}
	if canon {
		// apk-tools versions disagree with each other on leading zeros, on a missing -rN and
		// the repository's fixtures pad missing numeric components: canonical pairs have
		// the same number of numeric components and -rN on both sides or on neither.
		g.pairFix = func(a Ver, b *Ver) {
			for len(b.Nums) > len(a.Nums) {
				b.Nums = b.Nums[:len(b.Nums)-1]
				b.Seps = b.Seps[:len(b.Seps)-1]
			}
			for len(b.Nums) < len(a.Nums) {
				b.Nums = append(b.Nums, a.Nums[len(b.Nums)])
				b.Seps = append(b.Seps, ".")
			}
			if (a.Rev == "") != (b.Rev == "") {
				b.Rev = a.Rev
			}
		}
	}
	if !canon {
		g.local = func(t *rapid.T) string {
			if !oneIn(t, 6) {
				return ""
			}
			return "~" + pick(t, []string{"deadbeef", "0", "1a2b3c", "abc", "123"})
		}
	}
	return g
}

// genCanonNumBig: no leading zeros, any length (for references that compare digit strings).
func genCanonNumBig(t *rapid.T) string {
	if oneIn(t, 8) {
		if oneIn(t, 2) {
			return pick(t, bigNums)
		}
		return randDigits(t, 20, 40)
	}
	return genCanonNum(t)
}

// CRAN --------------------------------------------------------------------------------

func cranGrammar(canon bool) *grammar {
	k := numKind{zeros: true, big: true}
	return &grammar{
		minNums: 2, maxNums: 5,
		sep: func(t *rapid.T) string { return pick(t, []string{".", ".", "-"}) },
		num: func(t *rapid.T, _ int) string {
			if canon {
				return genNum(t, numKind{zeros: true})
			}
			return genNum(t, k)
		},
	}
}

// ---- entry points ----

func validGrammar(eco string) *grammar {
	switch Family(eco) {
	case "semver":
		return semverValid(eco)
	case "nuget":
		return nugetValid()
	case "pypi":
		return pypiValid()
	case "maven":
		return mavenValid()
	case "rubygems":
		return rubygemsValid()
	case "packagist":
		return packagistValid()
	case "debian":
		return debianValid()
	case "redhat":
		return redhatValid()
	case "alpine":
		return alpineGrammar(false)
	case "cran":
		return cranGrammar(false)
	}
	panic("vergram: unknown ecosystem " + eco)
}

func canonGrammar(eco string) *grammar {
	switch Family(eco) {
	case "semver":
		return semverCanon(eco)
	case "nuget":
		return nugetCanon()
	case "pypi":
		return pypiCanon()
	case "maven":
		return mavenCanon()
	case "rubygems":
		return rubygemsCanon()
	case "packagist":
		return packagistCanon()
	case "debian":
		return debianValid()
	case "redhat":
		return redhatCanon()
	case "alpine":
		return alpineGrammar(true)
	case "cran":
		return cranGrammar(true)
	}
	panic("vergram: unknown ecosystem " + eco)
}

// mutateTail derives a version that shares everything but its tail with v: the edits the
// padding / tie-breaking rules of the comparators are sensitive to.
func (g *grammar) mutateTail(t *rapid.T, v0 Ver) Ver {
	v := v0.clone()
	switch upTo(t, 0, 9) {
	case 8, 9: // another tag or number in one suffix, everything else kept
		if len(v.Sufs) == 0 || g.sufs == nil {
			break
		}
		i := upTo(t, 0, len(v.Sufs)-1)
		for tries := 0; tries < 4; tries++ {
			ns := g.sufs(t)
			if len(ns) == 0 {
				continue
			}
			d := ns[upTo(t, 0, len(ns)-1)]
			if g.swapTag && d.Tag != "" && v.Sufs[i].Tag != "" && oneIn(t, 2) {
				v.Sufs[i].Tag = d.Tag
			} else if d.Num != "" && v.Sufs[i].Num != "" {
				v.Sufs[i].Num = d.Num
			} else {
				continue
			}
			break
		}
	case 0, 1: // one more number
		if len(v.Nums) < g.maxNums {
			nn := "0"
			if oneIn(t, 2) {
				nn = g.num(t, len(v.Nums))
			}
			v.Nums = append(v.Nums, nn)
			v.Seps = append(v.Seps, g.sep(t))
		}
	case 2: // another last number
		v.Nums[len(v.Nums)-1] = g.num(t, len(v.Nums)-1)
	case 3: // one number fewer
		if len(v.Nums) > g.minNums {
			v.Nums = v.Nums[:len(v.Nums)-1]
			v.Seps = v.Seps[:len(v.Seps)-1]
		}
	case 4, 5:
		if g.sufs != nil {
			v.Sufs = g.sufs(t)
		}
	case 6:
		v.Sufs = nil
	case 7:
		v.Rev = str(g.rev, t)
		v.Local = str(g.local, t)
	}
	if g.fix != nil {
		g.fix(&v)
	}
	return v
}

func flipCase(c byte) byte {
	switch {
	case c >= 'a' && c <= 'z':
		return c - 32
	case c >= 'A' && c <= 'Z':
		return c + 32
	}
	return c
}

// recase changes the case of the letters of s: mode 0 flips every letter, 1 flips one
// letter, 2 upper-cases, 3 lower-cases.
func recase(t *rapid.T, s string, mode int) string {
	b := []byte(s)
	var letters []int
	for i, c := range b {
		if isAlpha(c) {
			letters = append(letters, i)
		}
	}
	if len(letters) == 0 {
		return s
	}
	switch mode {
	case 0:
		for _, i := range letters {
			b[i] = flipCase(b[i])
		}
	case 1:
		i := letters[upTo(t, 0, len(letters)-1)]
		b[i] = flipCase(b[i])
	case 2:
		return strings.ToUpper(s)
	case 3:
		return strings.ToLower(s)
	}
	return string(b)
}

func (g *grammar) hasCase() bool { return g.caseTag || g.caseLocal || g.caseRev }

// caseVariant derives a version that differs from v only in the ASCII case of letters
// (one field or all fields the grammar allows); it returns v itself when v has no letter
// in such a field.
func (g *grammar) caseVariant(t *rapid.T, v0 Ver) Ver {
	v := v0.clone()
	type field struct{ p *string }
	var fs []field
	if g.caseTag {
		for i := range v.Sufs {
			if strings.ContainsFunc(v.Sufs[i].Tag, func(r rune) bool { return r < 128 && isAlpha(byte(r)) }) {
				fs = append(fs, field{&v.Sufs[i].Tag})
			}
		}
	}
	hasAlpha := func(s string) bool {
		for i := 0; i < len(s); i++ {
			if isAlpha(s[i]) {
				return true
			}
		}
		return false
	}
	if g.caseLocal && hasAlpha(v.Local) {
		fs = append(fs, field{&v.Local})
	}
	if g.caseRev && hasAlpha(v.Rev) {
		fs = append(fs, field{&v.Rev})
	}
	if len(fs) == 0 {
		return v
	}
	mode := upTo(t, 0, 3)
	if oneIn(t, 2) {
		f := fs[upTo(t, 0, len(fs)-1)]
		*f.p = recase(t, *f.p, mode)
	} else {
		for _, f := range fs {
			*f.p = recase(t, *f.p, mode)
		}
	}
	if v.String() == v0.String() { // e.g. lower-casing a lower-case tag: flip instead
		f := fs[upTo(t, 0, len(fs)-1)]
		*f.p = recase(t, *f.p, 0)
	}
	if g.fix != nil {
		g.fix(&v)
	}
	return v
}

// GenValidTriple draws three grammar-valid versions of the ecosystem, biased to share
// prefixes: most triples are one base version and two tail variants of it (or of each
// other), the rest are mutations anywhere or independent versions.
func GenValidTriple(t *rapid.T, eco string) (string, string, string) {
	g := validGrammar(eco)
	a := g.gen(t)
	var b, c Ver
	if g.hasCase() && oneIn(t, 6) {
		// b spells a with other letter case, c is a neighbour of one of them
		b = g.caseVariant(t, a)
		switch upTo(t, 0, 3) {
		case 0:
			c = g.mutateTail(t, b)
		case 1:
			c = g.mutate(t, a)
		default:
			c = g.mutateTail(t, a)
		}
	} else if upTo(t, 0, 3) != 0 {
		b = g.mutateTail(t, a)
		if oneIn(t, 2) {
			c = g.mutateTail(t, a)
		} else {
			c = g.mutateTail(t, b)
		}
	} else {
		derive := func(from ...Ver) Ver {
			if oneIn(t, 4) {
				return g.gen(t)
			}
			return g.mutate(t, from[upTo(t, 0, len(from)-1)])
		}
		b = derive(a)
		c = derive(a, b)
	}
	return a.String(), b.String(), c.String()
}

// GenValid draws one grammar-valid version.
func GenValid(t *rapid.T, eco string) string { return validGrammar(eco).gen(t).String() }

// GenCanonPair draws two canonical versions (narrow grammar on which the published
// ordering rules are unambiguous), biased to share a prefix.
func GenCanonPair(t *rapid.T, eco string) (string, string) {
	g := canonGrammar(eco)
	a := g.gen(t)
	var b Ver
	switch k := upTo(t, 0, 8); {
	case k == 8 && g.hasCase():
		b = g.caseVariant(t, a)
	case k == 0:
		b = g.gen(t)
	case k <= 3:
		b = g.mutate(t, a)
	default:
		b = g.mutateTail(t, a)
	}
	if g.pairFix != nil {
		g.pairFix(a, &b)
	}
	return a.String(), b.String()
}

// ---- arbitrary strings ----

// Alphabet of the arbitrary-string leg: digits, letters, every separator the parsers
// mention, and a few bytes none of them expects.
var Alphabet = []rune("0123456789" + "0019" + "abcdeprvxzABRZ" + ".-_+~^:!v " + "..--" + "#*@/\\,=()\t\n\x00é٣")

var specialStrings = []string{"", " ", ".", "-", ":", "+", "~", "^", "!", "_", "v", "V", "1.", ".1", "1..2", "1--2", "1:", ":1", "1:-", "-1",
	"-r", "-r1", "_p", "_alpha", "~a", "1!", "!1", "1!!2", "+1", "1+", "1+1", "1-", "1_", "v1", "vv1", "1v", "0", "00", "1:2:3", "1-2-3",
	"99999999999999999999", "1.99999999999999999999", "0x10", "1e5", "١", "1.٣", "é", "1.0\x00", "\x00", "1 2", " 1", "1 ", "a", "A", "z.1", "1.a", "1.-a", "1-.a", "*", "1.*", "x", "1.x"}

func genRandomString(t *rapid.T) string {
	n := rapid.SampledFrom([]int{0, 1, 1, 2, 2, 3, 3, 4, 5, 6, 8, 12}).Draw(t, "len")
	rs := make([]rune, n)
	for i := range rs {
		rs[i] = rapid.SampledFrom(Alphabet).Draw(t, "r")
	}
	return string(rs)
}

// MutateString applies one to three small edits drawn from the arbitrary-string alphabet.
func MutateString(t *rapid.T, s string) string {
	rs := []rune(s)
	for k := upTo(t, 1, 3); k > 0; k-- {
		pos := 0
		if len(rs) > 0 {
			pos = upTo(t, 0, len(rs))
		}
		switch upTo(t, 0, 9) {
		case 8: // a zero in front of a digit run (also one glued to letters: rc1 -> rc01)
			var starts []int
			for i, r := range rs {
				if r >= '0' && r <= '9' && (i == 0 || rs[i-1] < '0' || rs[i-1] > '9') {
					starts = append(starts, i)
				}
			}
			if len(starts) > 0 {
				at := starts[upTo(t, 0, len(starts)-1)]
				rs = append(rs[:at:at], append([]rune{'0'}, rs[at:]...)...)
			}
		case 9: // the leading zeros of a digit run taken away
			var zs []int
			for i, r := range rs {
				if r == '0' && (i == 0 || rs[i-1] < '0' || rs[i-1] > '9') && i+1 < len(rs) && rs[i+1] >= '0' && rs[i+1] <= '9' {
					zs = append(zs, i)
				}
			}
			if len(zs) > 0 {
				at := zs[upTo(t, 0, len(zs)-1)]
				rs = append(rs[:at:at], rs[at+1:]...)
			}
		case 0, 1: // insert
			r := rapid.SampledFrom(Alphabet).Draw(t, "r")
			rs = append(rs[:pos:pos], append([]rune{r}, rs[pos:]...)...)
		case 2: // delete
			if pos < len(rs) {
				rs = append(rs[:pos:pos], rs[pos+1:]...)
			}
		case 3: // replace
			if pos < len(rs) {
				rs = append([]rune(nil), rs...)
				rs[pos] = rapid.SampledFrom(Alphabet).Draw(t, "r")
			}
		case 4: // truncate
			rs = rs[:pos:pos]
		case 5: // duplicate the tail
			rs = append(append([]rune(nil), rs...), rs[pos:]...)
		case 6: // append separator + token
			tok := pick(t, []string{"0", "1", "00", "99999999999999999999", "a", "rc", "alpha", "dev", "post", "p", "r1", "git", "SNAPSHOT", ""})
			sep := pick(t, []string{".", "-", "_", "+", "~", "^", ":", "!", "", " "})
			rs = append(append([]rune(nil), rs...), []rune(sep+tok)...)
		case 7: // swap case
			if pos < len(rs) {
				rs = append([]rune(nil), rs...)
				up := strings.ToUpper(string(rs[pos]))
				if up == string(rs[pos]) {
					up = strings.ToLower(up)
				}
				if ur := []rune(up); len(ur) == 1 {
					rs[pos] = ur[0]
				}
			}
		}
		if len(rs) > 64 {
			rs = rs[:64]
		}
	}
	return string(rs)
}

// GenArbitrary draws an arbitrary string for the ecosystem: random over the alphabet, a
// fixture string, a special string, a grammar-valid version, or a mutation of one of those.
func GenArbitrary(t *rapid.T, eco string) string {
	var s string
	switch upTo(t, 0, 9) {
	case 0, 1, 2:
		s = genRandomString(t)
	case 3, 4:
		if fs := FixtureStrings(Family(eco)); len(fs) > 0 {
			s = fs[upTo(t, 0, len(fs)-1)]
		}
	case 5:
		s = pick(t, specialStrings)
	default:
		s = GenValid(t, eco)
	}
	if oneIn(t, 2) {
		s = MutateString(t, s)
	}
	return s
}

// GenArbitraryPair draws two arbitrary strings; the second is often a mutation of the first.
func GenArbitraryPair(t *rapid.T, eco string) (string, string) {
	a := GenArbitrary(t, eco)
	if oneIn(t, 2) {
		return a, MutateString(t, a)
	}
	return a, GenArbitrary(t, eco)
}
