package vergram

import (
	"regexp"
	"strings"
)

// Recognisers of the two grammars per family. They make the property functions total: a
// hand-written replay case outside the grammar is skipped instead of being judged by an
// oracle that does not apply to it. TestGeneratorsStayInGrammar keeps them in step with the
// generators.

const (
	svNum   = `(?:0|[1-9][0-9]*)`
	svID    = `(?:0|[1-9][0-9]*|[0-9]*[A-Za-z-][0-9A-Za-z-]*)`
	svBuild = `(?:\+[0-9A-Za-z-]+(?:\.[0-9A-Za-z-]+)*)?`
	cID     = `(?:0|[1-9][0-9]*|[0-9]*[A-Za-z][0-9A-Za-z]*)` // canonical: no hyphen inside identifiers
	apkSuf  = `(?:alpha|beta|pre|rc|cvs|svn|git|hg|p)`
)

var validRE = map[string]*regexp.Regexp{
	// semver.org 2.0.0 (the official regular expression), optional v handled by IsValid
	"semver": regexp.MustCompile(`^` + svNum + `\.` + svNum + `\.` + svNum + `(?:-` + svID + `(?:\.` + svID + `)*)?` + svBuild + `$`),
	// NuGet: 2-4 numbers (leading zeros are normalised away), SemVer2 labels and metadata
	"nuget": regexp.MustCompile(`^[0-9]+(?:\.[0-9]+){1,3}(?:-` + svID + `(?:\.` + svID + `)*)?` + svBuild + `$`),
	// PEP 440 Appendix B
	"pypi": regexp.MustCompile(`(?i)^\s*v?(?:(?:([0-9]+)!)?([0-9]+(?:\.[0-9]+)*)([-_\.]?(a|b|c|rc|alpha|beta|pre|preview)[-_\.]?([0-9]+)?)?((?:-([0-9]+))|(?:[-_\.]?(post|rev|r)[-_\.]?([0-9]+)?))?([-_\.]?(dev)[-_\.]?([0-9]+)?)?)(?:\+([a-z0-9]+(?:[-_\.][a-z0-9]+)*))?\s*$`),
	// Maven standard layout: dotted numbers, then hyphen/transition separated qualifiers and
	// numbers (no '.' after the first hyphen or letter, see mavenValid)
	"maven": regexp.MustCompile(`^[0-9]+(?:\.[0-9]+)*(?:-?[A-Za-z]+(?:-?[0-9]+)?|-[0-9]+)*$`),
	// Gem::Version::VERSION_PATTERN
	"rubygems": regexp.MustCompile(`^[0-9]+(?:\.[0-9a-zA-Z]+)*(?:-[0-9A-Za-z-]+(?:\.[0-9A-Za-z-]+)*)?$`),
	// Composer VersionParser: classical versions with a stability modifier
	"packagist": regexp.MustCompile(`(?i)^v?[0-9]+(?:\.[0-9]+){0,3}(?:[._-]?(?:beta|b|rc|alpha|a|patch|pl|p)(?:[.-]?[0-9]+)*)?(?:[.-]?dev)?$`),
	// Debian Policy 5.6.12: [epoch:]upstream[-revision]; hyphen only with a revision
	"debian": regexp.MustCompile(`^(?:[0-9]+:)?[0-9][0-9A-Za-z.+~]*(?:(?:-[0-9A-Za-z.+~]*)*-[0-9A-Za-z.+~]+)?$`),
	// rpm: [epoch:]version[-release]
	"redhat": regexp.MustCompile(`^(?:[0-9]+:)?[0-9A-Za-z._+~^]+(?:-[0-9A-Za-z._+~^]+)?$`),
	// apk-package(5)
	"alpine": regexp.MustCompile(`^[0-9]+(?:\.[0-9]+)*[a-z]?(?:_` + apkSuf + `[0-9]*)*(?:~[0-9a-f]+)?(?:-r[0-9]+)?$`),
	// R package_version: at least two integers separated by '.' or '-'
	"cran": regexp.MustCompile(`^[0-9]+(?:[.-][0-9]+)+$`),
}

var canonRE = map[string]*regexp.Regexp{
	"semver":    regexp.MustCompile(`^` + svNum + `\.` + svNum + `\.` + svNum + `(?:-` + cID + `(?:\.` + cID + `)*)?` + svBuild + `$`),
	"nuget":     regexp.MustCompile(`^` + svNum + `(?:\.` + svNum + `){1,3}(?:-` + cID + `(?:\.` + cID + `)*)?` + svBuild + `$`),
	"pypi":      regexp.MustCompile(`^(?:` + svNum + `!)?` + svNum + `(?:\.` + svNum + `)*(?:(?i:a|b|rc)` + svNum + `)?(?:\.(?i:post)` + svNum + `)?(?:\.(?i:dev)` + svNum + `)?(?:\+` + pyLoc + `(?:\.` + pyLoc + `)*)?$`),
	"maven":     regexp.MustCompile(`^[0-9]+(?:\.[0-9]+)*(?:-?[A-Za-z]+(?:-?[0-9]+)?|-[0-9]+)*$`),
	"rubygems":  regexp.MustCompile(`^` + svNum + `(?:\.` + svNum + `){0,4}(?:\.[A-Za-z]+(?:\.?` + svNum + `)?)?$`),
	"packagist": regexp.MustCompile(`^` + svNum + `\.` + svNum + `\.` + svNum + `(?:-dev|-(?:alpha|beta|RC|rc|a|b|pl|p|patch)` + svNum + `)?$`),
	"alpine":    regexp.MustCompile(`^` + svNum + `(?:\.` + svNum + `)*[a-z]?(?:_` + apkSuf + `(?:` + svNum + `)?)*(?:-r` + svNum + `)?$`),
	"cran":      regexp.MustCompile(`^[0-9]{1,9}(?:[.-][0-9]{1,9})+$`),
}

const pyLoc = `(?:0|[1-9][0-9]*|[A-Za-z0-9]*[A-Za-z][A-Za-z0-9]*)`

// bigOK lists the families whose references compare digit strings of any length.
var bigOK = map[string]bool{"debian": true, "redhat": true, "alpine": true}

func stripV(eco, s string) (string, bool) {
	switch eco {
	case "Go":
		if !strings.HasPrefix(s, "v") {
			return s, false
		}
		return s[1:], true
	case "npm":
		return strings.TrimPrefix(s, "v"), true
	}
	return s, true
}

// IsValid reports whether s is in the ecosystem's own version grammar (the conservative
// rendering of it that the triple leg quantifies over).
func IsValid(eco, s string) bool {
	fam := Family(eco)
	if fam == "semver" {
		var ok bool
		if s, ok = stripV(eco, s); !ok {
			return false
		}
	}
	re := validRE[fam]
	return re != nil && re.MatchString(s)
}

// fitsInt32 reports whether every maximal run of digits in s is at most 2147483647.
func fitsInt32(s string) bool {
	for i := 0; i < len(s); {
		if !isDigit(s[i]) {
			i++
			continue
		}
		j := i
		for j < len(s) && isDigit(s[j]) {
			j++
		}
		if cmpNum(s[i:j], "2147483647") > 0 {
			return false
		}
		i = j
	}
	return true
}

// IsCanonical reports whether s is in the narrow canonical grammar of the ecosystem.
func IsCanonical(eco, s string) bool {
	fam := Family(eco)
	switch fam {
	case "debian", "redhat":
		return IsValid(eco, s)
	case "semver":
		if eco == "npm" && strings.HasPrefix(s, "v") {
			return false
		}
		var ok bool
		if s, ok = stripV(eco, s); !ok {
			return false
		}
	}
	re := canonRE[fam]
	if re == nil || !re.MatchString(s) {
		return false
	}
	if fam == "maven" && leadingZeroRun.MatchString(s) {
		return false
	}
	return bigOK[fam] || fitsInt32(s)
}

var leadingZeroRun = regexp.MustCompile(`(?:^|[^0-9])0[0-9]`)

// IsCanonicalPair adds the constraints between the two versions of a canonical pair.
func IsCanonicalPair(eco, a, b string) bool {
	if !IsCanonical(eco, a) || !IsCanonical(eco, b) {
		return false
	}
	switch Family(eco) {
	case "redhat":
		// a missing release is read in two ways by rpm itself
		return hasRelease(a) == hasRelease(b)
	case "alpine":
		x, y := apkParse(a), apkParse(b)
		return len(x.nums) == len(y.nums) && x.hasRev == y.hasRev
	}
	return true
}

func hasRelease(s string) bool { return strings.Contains(s, "-") }
