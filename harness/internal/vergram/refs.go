package vergram

import (
	"regexp"
	"strings"

	"deps.dev/util/semver"
)

// Reference comparators, written from the published ordering rules of each ecosystem (not
// from the code under test). They are only ever applied to canonical versions
// (IsCanonical), where the rules leave no room for interpretation.

// RefResult is the verdict of one reference comparator.
type RefResult struct {
	Name string
	Cmp  int
}

func sign(x int) int {
	switch {
	case x < 0:
		return -1
	case x > 0:
		return 1
	}
	return 0
}

func isDigit(c byte) bool { return c >= '0' && c <= '9' }
func isAlpha(c byte) bool { return (c >= 'a' && c <= 'z') || (c >= 'A' && c <= 'Z') }

func allDigits(s string) bool {
	if s == "" {
		return false
	}
	for i := 0; i < len(s); i++ {
		if !isDigit(s[i]) {
			return false
		}
	}
	return true
}

// cmpNum compares two strings of decimal digits of any length by value.
func cmpNum(a, b string) int {
	a = strings.TrimLeft(a, "0")
	b = strings.TrimLeft(b, "0")
	if len(a) != len(b) {
		return sign(len(a) - len(b))
	}
	return strings.Compare(a, b)
}

// ---- SemVer 2.0.0 item 11 (also NuGet: up to four numbers, case-insensitive labels) ----

func semverRef(a, b string, ci bool) int {
	parse := func(s string) (nums []string, pre []string) {
		s = strings.TrimPrefix(s, "v")
		s, _, _ = strings.Cut(s, "+")
		core, p, has := strings.Cut(s, "-")
		nums = strings.Split(core, ".")
		if has {
			pre = strings.Split(p, ".")
		}
		return
	}
	an, ap := parse(a)
	bn, bp := parse(b)
	for i := 0; i < len(an) || i < len(bn); i++ {
		x, y := "0", "0"
		if i < len(an) {
			x = an[i]
		}
		if i < len(bn) {
			y = bn[i]
		}
		if c := cmpNum(x, y); c != 0 {
			return c
		}
	}
	if len(ap) == 0 || len(bp) == 0 {
		// a pre-release version has lower precedence than the normal version
		return sign(len(bp) - len(ap))
	}
	for i := 0; i < len(ap) && i < len(bp); i++ {
		x, y := ap[i], bp[i]
		xd, yd := allDigits(x), allDigits(y)
		switch {
		case xd && yd:
			if c := cmpNum(x, y); c != 0 {
				return c
			}
		case xd:
			return -1
		case yd:
			return 1
		default:
			if ci {
				x, y = strings.ToLower(x), strings.ToLower(y)
			}
			if c := strings.Compare(x, y); c != 0 {
				return c
			}
		}
	}
	return sign(len(ap) - len(bp))
}

// ---- dpkg (Debian Policy 5.6.12, deb-version(7)) ----

func dpkgOrder(s string, i int) int {
	if i >= len(s) {
		return 0
	}
	c := s[i]
	switch {
	case isDigit(c):
		return 0
	case isAlpha(c):
		return int(c)
	case c == '~':
		return -1
	}
	return int(c) + 256
}

func dpkgVerrevcmp(a, b string) int {
	i, j := 0, 0
	for i < len(a) || j < len(b) {
		for (i < len(a) && !isDigit(a[i])) || (j < len(b) && !isDigit(b[j])) {
			if d := dpkgOrder(a, i) - dpkgOrder(b, j); d != 0 {
				return sign(d)
			}
			i++
			j++
		}
		si := i
		for i < len(a) && isDigit(a[i]) {
			i++
		}
		sj := j
		for j < len(b) && isDigit(b[j]) {
			j++
		}
		if c := cmpNum(a[si:i], b[sj:j]); c != 0 {
			return c
		}
	}
	return 0
}

func dpkgRef(a, b string) int {
	split := func(s string) (epoch, up, rev string) {
		epoch, rev = "0", "0"
		if i := strings.Index(s, ":"); i >= 0 {
			epoch, s = s[:i], s[i+1:]
		}
		if i := strings.LastIndex(s, "-"); i >= 0 {
			s, rev = s[:i], s[i+1:]
		}
		return epoch, s, rev
	}
	ae, au, ar := split(a)
	be, bu, br := split(b)
	if c := cmpNum(ae, be); c != 0 {
		return c
	}
	if c := dpkgVerrevcmp(au, bu); c != 0 {
		return c
	}
	return dpkgVerrevcmp(ar, br)
}

// ---- rpmvercmp (rpm lib/rpmvercmp.c, as documented in rpm-version(7)) ----

func rpmvercmp(a, b string) int {
	if a == b {
		return 0
	}
	i, j := 0, 0
	at := func(s string, k int) byte {
		if k < len(s) {
			return s[k]
		}
		return 0
	}
	alnum := func(c byte) bool { return isDigit(c) || isAlpha(c) }
	for i < len(a) || j < len(b) {
		for i < len(a) && !alnum(a[i]) && a[i] != '~' && a[i] != '^' {
			i++
		}
		for j < len(b) && !alnum(b[j]) && b[j] != '~' && b[j] != '^' {
			j++
		}
		if at(a, i) == '~' || at(b, j) == '~' {
			if at(a, i) != '~' {
				return 1
			}
			if at(b, j) != '~' {
				return -1
			}
			i++
			j++
			continue
		}
		if at(a, i) == '^' || at(b, j) == '^' {
			if i >= len(a) {
				return -1
			}
			if j >= len(b) {
				return 1
			}
			if a[i] != '^' {
				return 1
			}
			if b[j] != '^' {
				return -1
			}
			i++
			j++
			continue
		}
		if i >= len(a) || j >= len(b) {
			break
		}
		si, sj := i, j
		num := isDigit(a[i])
		if num {
			for i < len(a) && isDigit(a[i]) {
				i++
			}
			for j < len(b) && isDigit(b[j]) {
				j++
			}
		} else {
			for i < len(a) && isAlpha(a[i]) {
				i++
			}
			for j < len(b) && isAlpha(b[j]) {
				j++
			}
		}
		if sj == j {
			// segments of different types: numeric is newer than alphabetic
			if num {
				return 1
			}
			return -1
		}
		if num {
			if c := cmpNum(a[si:i], b[sj:j]); c != 0 {
				return c
			}
		} else if c := strings.Compare(a[si:i], b[sj:j]); c != 0 {
			return c
		}
	}
	if i >= len(a) && j >= len(b) {
		return 0
	}
	if i < len(a) {
		return 1
	}
	return -1
}

// rpmRef compares [epoch:]version[-release]; both sides have a release or neither has.
func rpmRef(a, b string) int {
	split := func(s string) (e, v, r string) {
		e = "0"
		if i := strings.Index(s, ":"); i >= 0 {
			e, s = s[:i], s[i+1:]
		}
		v, r, _ = strings.Cut(s, "-")
		return
	}
	ae, av, ar := split(a)
	be, bv, br := split(b)
	if c := cmpNum(ae, be); c != 0 {
		return c
	}
	if c := rpmvercmp(av, bv); c != 0 {
		return c
	}
	return rpmvercmp(ar, br)
}

// ---- apk-tools (apk-package(5) "pkgver", apk-tools src/version.c) ----

var apkSufOrder = map[string]int{"alpha": -4, "beta": -3, "pre": -2, "rc": -1, "cvs": 1, "svn": 2, "git": 3, "hg": 4, "p": 5}

type apkVer struct {
	nums   []string
	letter string
	sufs   [][2]string
	rev    string
	hasRev bool
}

func apkParse(s string) apkVer {
	var v apkVer
	if i := strings.LastIndex(s, "-r"); i >= 0 {
		v.rev, v.hasRev, s = s[i+2:], true, s[:i]
	}
	parts := strings.Split(s, "_")
	head := parts[0]
	if n := len(head); n > 0 && head[n-1] >= 'a' && head[n-1] <= 'z' {
		v.letter, head = head[n-1:], head[:n-1]
	}
	v.nums = strings.Split(head, ".")
	for _, p := range parts[1:] {
		k := len(p)
		for k > 0 && isDigit(p[k-1]) {
			k--
		}
		v.sufs = append(v.sufs, [2]string{p[:k], p[k:]})
	}
	return v
}

// apkRef: canonical Alpine versions have the same number of numeric components on both
// sides and either both or neither carry -rN (see IsCanonicalPair).
func apkRef(a, b string) int {
	x, y := apkParse(a), apkParse(b)
	for i := 0; i < len(x.nums) && i < len(y.nums); i++ {
		if c := cmpNum(x.nums[i], y.nums[i]); c != 0 {
			return c
		}
	}
	if c := sign(len(x.nums) - len(y.nums)); c != 0 {
		return c
	}
	if c := strings.Compare(x.letter, y.letter); c != 0 {
		return c
	}
	for i := 0; i < len(x.sufs) || i < len(y.sufs); i++ {
		xo, yo, xn, yn := 0, 0, "0", "0"
		if i < len(x.sufs) {
			xo, xn = apkSufOrder[x.sufs[i][0]], x.sufs[i][1]
		}
		if i < len(y.sufs) {
			yo, yn = apkSufOrder[y.sufs[i][0]], y.sufs[i][1]
		}
		if xo != yo {
			return sign(xo - yo)
		}
		if c := cmpNum(xn, yn); c != 0 {
			return c
		}
	}
	return cmpNum(x.rev, y.rev)
}

// ---- R package_version ----

func rRef(a, b string) int {
	as := strings.Split(strings.ReplaceAll(a, "-", "."), ".")
	bs := strings.Split(strings.ReplaceAll(b, "-", "."), ".")
	for i := 0; i < len(as) && i < len(bs); i++ {
		if c := cmpNum(as[i], bs[i]); c != 0 {
			return c
		}
	}
	return sign(len(as) - len(bs))
}

// ---- Gem::Version (rubygems/version.rb: segments, canonical_segments, <=>) ----

func gemSegments(s string) []string {
	var segs []string
	for i := 0; i < len(s); {
		j := i
		switch {
		case isDigit(s[i]):
			for j < len(s) && isDigit(s[j]) {
				j++
			}
		case isAlpha(s[i]):
			for j < len(s) && isAlpha(s[j]) {
				j++
			}
		default:
			i++
			continue
		}
		segs = append(segs, s[i:j])
		i = j
	}
	// canonical_segments: trailing zeros are dropped from the numeric head and from the rest
	k := len(segs)
	for i, x := range segs {
		if !allDigits(x) {
			k = i
			break
		}
	}
	dropZeros := func(xs []string) []string {
		for len(xs) > 0 && allDigits(xs[len(xs)-1]) && cmpNum(xs[len(xs)-1], "0") == 0 {
			xs = xs[:len(xs)-1]
		}
		return xs
	}
	head, tail := dropZeros(append([]string(nil), segs[:k]...)), dropZeros(append([]string(nil), segs[k:]...))
	return append(head, tail...)
}

// gemRef: numbers compare by value, strings bytewise (String#<=>, so "RC" < "rc"), a
// string sorts before a number, a missing segment is 0.
func gemRef(a, b string) int {
	x, y := gemSegments(a), gemSegments(b)
	for i := 0; i < len(x) || i < len(y); i++ {
		p, q := "0", "0"
		if i < len(x) {
			p = x[i]
		}
		if i < len(y) {
			q = y[i]
		}
		pd, qd := allDigits(p), allDigits(q)
		switch {
		case pd && qd:
			if c := cmpNum(p, q); c != 0 {
				return c
			}
		case pd:
			return 1
		case qd:
			return -1
		default:
			if c := strings.Compare(p, q); c != 0 {
				return c
			}
		}
	}
	return 0
}

// ---- PHP version_compare (php.net/version_compare), used by Composer/Packagist ----

func phpCanon(s string) []string {
	s = strings.NewReplacer("-", ".", "_", ".", "+", ".").Replace(s)
	var b strings.Builder
	for i := 0; i < len(s); i++ {
		if i > 0 && s[i] != '.' && s[i-1] != '.' && isDigit(s[i]) != isDigit(s[i-1]) {
			b.WriteByte('.')
		}
		b.WriteByte(s[i])
	}
	return strings.Split(b.String(), ".")
}

// PackagistComponents splits a Composer version the way PHP's version_compare does (after
// Composer's removal of a leading "v").
func PackagistComponents(s string) []string {
	return phpCanon(strings.TrimPrefix(strings.TrimPrefix(s, "v"), "V"))
}

// ExceedsInt64 reports whether s is a run of decimal digits whose value is above 2^63-1.
func ExceedsInt64(s string) bool {
	return allDigits(s) && cmpNum(s, "9223372036854775807") > 0
}

func phpForm(s string) int {
	for _, f := range []struct {
		p string
		o int
	}{{"dev", 0}, {"alpha", 1}, {"a", 1}, {"beta", 2}, {"b", 2}, {"RC", 3}, {"rc", 3}, {"#", 4}, {"pl", 5}, {"p", 5}} {
		if strings.HasPrefix(s, f.p) {
			return f.o
		}
	}
	return -1
}

func phpRef(a, b string) int {
	x, y := phpCanon(a), phpCanon(b)
	for i := 0; i < len(x) && i < len(y); i++ {
		xd, yd := allDigits(x[i]), allDigits(y[i])
		var c int
		switch {
		case xd && yd:
			c = cmpNum(x[i], y[i])
		case !xd && !yd:
			c = sign(phpForm(x[i]) - phpForm(y[i]))
		case xd:
			c = sign(phpForm("#") - phpForm(y[i]))
		default:
			c = sign(phpForm(x[i]) - phpForm("#"))
		}
		if c != 0 {
			return c
		}
	}
	if len(x) > len(y) {
		if allDigits(x[len(y)]) {
			return 1
		}
		return sign(phpForm(x[len(y)]) - phpForm("#"))
	}
	if len(y) > len(x) {
		if allDigits(y[len(x)]) {
			return -1
		}
		return sign(phpForm("#") - phpForm(y[len(x)]))
	}
	return 0
}

// ---- PEP 440 (version specifiers, "Summary of permitted suffixes and relative ordering") ----

type pepVer struct {
	epoch            string
	release          []string
	preL, preN       string
	post, dev, local string
	hasPost, hasDev  bool
}

var pepCanon = regexp.MustCompile(`^(?:([0-9]+)!)?([0-9]+(?:\.[0-9]+)*)(?:(a|b|rc)([0-9]+))?(?:\.post([0-9]+))?(?:\.dev([0-9]+))?(?:\+([a-z0-9.]+))?$`)

func pepParse(s string) pepVer {
	m := pepCanon.FindStringSubmatch(s)
	if m == nil {
		return pepVer{}
	}
	v := pepVer{epoch: m[1], release: strings.Split(m[2], "."), preL: m[3], preN: m[4], post: m[5], dev: m[6], local: m[7]}
	v.hasPost = strings.Contains(s, ".post")
	v.hasDev = strings.Contains(s, ".dev")
	for len(v.release) > 1 && cmpNum(v.release[len(v.release)-1], "0") == 0 {
		v.release = v.release[:len(v.release)-1]
	}
	return v
}

// preKey: dev-only releases sort before every pre-release, releases without a
// pre-release segment after every pre-release.
func (v pepVer) preKey() (int, string) {
	switch {
	case v.preL == "" && !v.hasPost && v.hasDev:
		return -1, "0"
	case v.preL == "":
		return 4, "0"
	}
	return map[string]int{"a": 1, "b": 2, "rc": 3}[v.preL], v.preN
}

// PEP 440: "all ascii letters should be interpreted case insensitively".
func pep440Ref(a, b string) int {
	x, y := pepParse(strings.ToLower(a)), pepParse(strings.ToLower(b))
	if c := cmpNum(x.epoch, y.epoch); c != 0 {
		return c
	}
	for i := 0; i < len(x.release) || i < len(y.release); i++ {
		p, q := "0", "0"
		if i < len(x.release) {
			p = x.release[i]
		}
		if i < len(y.release) {
			q = y.release[i]
		}
		if c := cmpNum(p, q); c != 0 {
			return c
		}
	}
	xr, xn := x.preKey()
	yr, yn := y.preKey()
	if xr != yr {
		return sign(xr - yr)
	}
	if c := cmpNum(xn, yn); c != 0 {
		return c
	}
	// post: absent sorts first
	if x.hasPost != y.hasPost {
		if y.hasPost {
			return -1
		}
		return 1
	}
	if c := cmpNum(x.post, y.post); c != 0 {
		return c
	}
	// dev: absent sorts last
	if x.hasDev != y.hasDev {
		if x.hasDev {
			return -1
		}
		return 1
	}
	if c := cmpNum(x.dev, y.dev); c != 0 {
		return c
	}
	// local: absent sorts first; numeric segments after alphanumeric ones; a longer
	// local version with an equal prefix is greater
	if (x.local == "") != (y.local == "") {
		if x.local == "" {
			return -1
		}
		return 1
	}
	if x.local == "" {
		return 0
	}
	xs, ys := strings.Split(x.local, "."), strings.Split(y.local, ".")
	for i := 0; i < len(xs) && i < len(ys); i++ {
		xd, yd := allDigits(xs[i]), allDigits(ys[i])
		switch {
		case xd && yd:
			if c := cmpNum(xs[i], ys[i]); c != 0 {
				return c
			}
		case xd:
			return 1
		case yd:
			return -1
		default:
			if c := strings.Compare(xs[i], ys[i]); c != 0 {
				return c
			}
		}
	}
	return sign(len(xs) - len(ys))
}

// ---- deps.dev ----

func depsdevSystem(eco string) (semver.System, bool) {
	switch eco {
	case "npm":
		return semver.NPM, true
	case "crates.io":
		return semver.Cargo, true
	case "Go":
		return semver.Go, true
	case "Maven":
		return semver.Maven, true
	case "NuGet":
		return semver.NuGet, true
	case "PyPI":
		return semver.PyPI, true
	case "RubyGems":
		return semver.RubyGems, true
	case "Packagist":
		return semver.Composer, true
	}
	return 0, false
}

var pepPost0 = regexp.MustCompile(`\.post0+(\.|$)`)

func depsdevRef(eco, a, b string) (int, bool) {
	sys, ok := depsdevSystem(eco)
	if !ok {
		return 0, false
	}
	if eco == "Packagist" {
		// deps.dev orders Composer pre-release labels as plain SemVer strings, which is not
		// Composer's stability order: it is only consulted on purely numeric versions.
		if strings.ContainsAny(a+b, "-+") {
			return 0, false
		}
	}
	if eco == "RubyGems" && (a != strings.ToLower(a) || b != strings.ToLower(b)) {
		// deps.dev lower-cases gem versions; Gem::Version compares string segments bytewise
		return 0, false
	}
	if eco == "PyPI" && (a != strings.ToLower(a) || b != strings.ToLower(b)) {
		// deps.dev's PEP 440 parser only knows the lower-case spellings
		return 0, false
	}
	if eco == "PyPI" {
		// deps.dev ranks PEP 440 suffix combinations approximately (local versions are only
		// compared for some ranks, a missing post segment equals .post0): it is only
		// consulted when no local version and no .post0 occurs.
		if strings.Contains(a+b, "+") || pepPost0.MatchString(a) || pepPost0.MatchString(b) {
			return 0, false
		}
	}
	va, err := sys.Parse(a)
	if err != nil {
		return 0, false
	}
	vb, err := sys.Parse(b)
	if err != nil {
		return 0, false
	}
	return va.Compare(vb), true
}

// References returns the verdicts of every reference comparator that applies to the pair
// of canonical versions of the ecosystem.
func References(eco, a, b string) []RefResult {
	var out []RefResult
	switch Family(eco) {
	case "semver":
		out = append(out, RefResult{"semver.org 2.0.0 item 11", semverRef(a, b, false)})
	case "nuget":
		out = append(out, RefResult{"NuGet SemVer2 precedence", semverRef(a, b, true)})
	case "debian":
		out = append(out, RefResult{"dpkg (Debian Policy 5.6.12)", dpkgRef(a, b)})
	case "redhat":
		out = append(out, RefResult{"rpmvercmp", rpmRef(a, b)})
	case "alpine":
		out = append(out, RefResult{"apk-tools version order", apkRef(a, b)})
	case "cran":
		out = append(out, RefResult{"R package_version", rRef(a, b)})
	case "packagist":
		out = append(out, RefResult{"PHP version_compare", phpRef(a, b)})
	case "pypi":
		out = append(out, RefResult{"PEP 440 ordering", pep440Ref(a, b)})
	case "rubygems":
		out = append(out, RefResult{"Gem::Version <=>", gemRef(a, b)})
	}
	if c, ok := depsdevRef(eco, a, b); ok {
		out = append(out, RefResult{"deps.dev/util/semver", c})
	}
	return out
}
