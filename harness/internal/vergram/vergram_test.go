package vergram

import (
	"flag"
	"fmt"
	"os"
	"testing"

	"pgregory.net/rapid"
)

// The generators must stay inside the grammars the recognisers describe.
func TestGeneratorsStayInGrammar(t *testing.T) {
	_ = flag.Set("rapid.nofailfile", "true") // never leave testdata/rapid files behind
	for _, eco := range Ecosystems {
		eco := eco
		t.Run(eco, func(t *testing.T) {
			rapid.Check(t, func(rt *rapid.T) {
				a, b, c := GenValidTriple(rt, eco)
				for _, s := range []string{a, b, c} {
					if !IsValid(eco, s) {
						rt.Fatalf("valid generator of %s produced %q, which IsValid rejects", eco, s)
					}
				}
				x, y := GenCanonPair(rt, eco)
				if !IsCanonicalPair(eco, x, y) {
					rt.Fatalf("canonical generator of %s produced (%q, %q), which IsCanonicalPair rejects", eco, x, y)
				}
				if !IsValid(eco, x) || !IsValid(eco, y) {
					rt.Fatalf("canonical version of %s not grammar-valid: %q %q", eco, x, y)
				}
			})
		})
	}
}

// Calibration of the reference comparators against the repository's own fixtures:
// VERGRAM_CALIBRATE=1 go test -run TestCalibrate -v ./internal/vergram/
func TestCalibrate(t *testing.T) {
	if os.Getenv("VERGRAM_CALIBRATE") == "" {
		t.Skip("set VERGRAM_CALIBRATE=1")
	}
	all := os.Getenv("VERGRAM_CALIBRATE") == "all"
	for _, eco := range Ecosystems {
		lines := FixtureLines(Family(eco))
		used, bad := 0, 0
		for _, l := range lines {
			if !all && !IsCanonicalPair(eco, l.A, l.B) {
				continue
			}
			used++
			want := map[string]int{"<": -1, "=": 0, ">": 1}[l.Op]
			for _, r := range References(eco, l.A, l.B) {
				if r.Cmp != want {
					bad++
					if bad <= 40 {
						fmt.Printf("%-10s %-28s %s %s %s   reference says %d\n", eco, r.Name, l.A, l.Op, l.B, r.Cmp)
					}
				}
			}
		}
		fmt.Printf("== %s: %d fixture lines, %d canonical, %d disagreements\n", eco, len(lines), used, bad)
	}
}
