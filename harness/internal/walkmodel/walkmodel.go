// Package walkmodel is the reference semantics of a filesystem scan, written from
// docs/new_extractor.md ("for f in walk.files: for e in extractors: if e.FileRequired(f):
// e.Extract(f)") and the ScanConfig field comments — not from the implementation's
// handleFile. See DESIGN.md §3 (walkmodel) and §4 C01.
package walkmodel

import (
	"path"
	"regexp"
	"sort"
	"strings"

	"github.com/gobwas/glob"

	"verifharness/internal/memfs"
	"verifharness/internal/recext"
)

// Config mirrors the scan options the properties quantify over (JSON-serialisable).
type Config struct {
	DirsToSkip        []string `json:"dirs_to_skip,omitempty"`
	Regex             string   `json:"regex,omitempty"`
	Glob              string   `json:"glob,omitempty"`
	UseGitignore      bool     `json:"use_gitignore,omitempty"`
	PathsToExtract    []string `json:"paths_to_extract,omitempty"`
	IgnoreSubDirs     bool     `json:"ignore_sub_dirs,omitempty"`
	MaxFileSize       int      `json:"max_file_size,omitempty"`
	ReadSymlinks      bool     `json:"read_symlinks,omitempty"`
	StoreAbsolutePath bool     `json:"store_absolute_path,omitempty"`
	MaxInodes         int      `json:"max_inodes,omitempty"`
	ErrorOnFSErrors   bool     `json:"error_on_fs_errors,omitempty"`
}

// Extraction is one expected Extract call.
type Extraction struct {
	Ext  string
	Path string
}

// Expectation is the model's verdict for one (tree, config, extractors).
type Expectation struct {
	// Calls is the expected multiset of Extract calls (sorted).
	Calls []Extraction
	// DontCare is set when the case falls into a situation the property leaves open; the
	// reasons are listed. Calls is then not to be asserted.
	DontCare []string
	// Excluded counts files that some extractor requires but a rule other than
	// FileRequired keeps out, per rule.
	Excluded map[string]int
	// Rules lists the skip mechanisms that actually fired.
	Fired map[string]bool
	// Optional lists Extract calls the property leaves open: a symlink (with symlink reading
	// on) whose own path matches a directory skip rule may or may not be extracted; nothing
	// else may change because of it.
	Optional []Extraction
	// VisitedInodes is the number of inodes the model's walk visits (observed only).
	VisitedInodes int
}

type model struct {
	fs    *memfs.FS
	cfg   Config
	exts  []recext.ExtSpec
	re    *regexp.Regexp
	gl    glob.Glob
	skipL map[string]bool
	req   map[string]bool
	exp   *Expectation
	gi    map[string][]giPattern // dir -> parsed .gitignore
}

type giPattern struct {
	parts   []string // components; anchored patterns have >1 component or a leading ""
	anch    bool
	dirOnly bool
}

// ParseGitignore parses the generated sub-language: literal names, "*.ext", "name/",
// "/anchored", "a/b". Blank lines and "#" comments are skipped.
func parseGitignore(content string) []giPattern {
	var out []giPattern
	for _, line := range strings.Split(content, "\n") {
		line = strings.TrimSuffix(line, "\r")
		if strings.HasPrefix(line, "#") || strings.TrimSpace(line) == "" {
			continue
		}
		line = strings.TrimRight(line, " ")
		p := giPattern{}
		if strings.HasSuffix(line, "/") {
			p.dirOnly = true
			line = strings.TrimSuffix(line, "/")
		}
		if strings.Contains(line, "/") {
			p.anch = true
			line = strings.TrimPrefix(line, "/")
		}
		p.parts = strings.Split(line, "/")
		out = append(out, p)
	}
	return out
}

// giMatch: does pattern p (from the .gitignore of directory D) ignore the path whose
// components below D are rel (isDir tells the kind of the last component)? Git semantics:
// a path is ignored when it or any of its parent directories below D matches.
func giMatch(p giPattern, rel []string, isDir bool) bool {
	if len(rel) == 0 {
		return false
	}
	if p.anch {
		if len(rel) < len(p.parts) {
			return false
		}
		for i, pp := range p.parts {
			if ok, err := path.Match(pp, rel[i]); err != nil || !ok {
				return false
			}
		}
		if p.dirOnly && len(rel) == len(p.parts) && !isDir {
			return false
		}
		return true
	}
	for i, c := range rel {
		ok, err := path.Match(p.parts[0], c)
		if err != nil || !ok {
			continue
		}
		last := i == len(rel)-1
		if p.dirOnly && last && !isDir {
			continue
		}
		return true
	}
	return false
}

func split(p string) []string {
	if p == "." || p == "" {
		return nil
	}
	return strings.Split(p, "/")
}

// gitignored evaluates all .gitignore files of the strict ancestors of p (the scan root
// included), each applying to paths below its own directory.
func (m *model) gitignored(p string, isDir bool) bool {
	comps := split(p)
	for i := 0; i < len(comps); i++ {
		d := "."
		if i > 0 {
			d = strings.Join(comps[:i], "/")
		}
		pats, ok := m.gi[d]
		if !ok {
			n := m.fs.Node(joinp(d, ".gitignore"))
			if n != nil && n.Kind == memfs.KFile {
				pats = parseGitignore(n.Content)
			}
			m.gi[d] = pats
		}
		for _, pt := range pats {
			if giMatch(pt, comps[i:], isDir) {
				return true
			}
		}
	}
	return false
}

func joinp(d, b string) string {
	if d == "." {
		return b
	}
	return d + "/" + b
}

// skipRule returns the name of a rule (other than the sub-directory cut-off) that skips
// directory d, or "".
func (m *model) skipRule(d string) string {
	if m.skipL[d] {
		return "skip_list"
	}
	if m.re != nil && m.re.MatchString(d) {
		return "regex"
	}
	if m.gl != nil && m.gl.Match(d) {
		return "glob"
	}
	if m.cfg.UseGitignore && m.gitignored(d, true) {
		return "gitignore_dir"
	}
	return ""
}

func (m *model) skipped(d string) string {
	if r := m.skipRule(d); r != "" {
		return r
	}
	if m.cfg.IgnoreSubDirs && !m.req[d] {
		return "sub_dir_cutoff"
	}
	return ""
}

// wantedBy lists the extractors whose predicate requires p.
func (m *model) wantedBy(p string) []string {
	var out []string
	mode := func() (uint32, bool) {
		_, n, err := m.fs.Lookup(p, true)
		if err != nil {
			return 0, false
		}
		perm := n.Mode & 0o777
		if perm == 0 {
			if n.Kind == memfs.KDir {
				perm = 0o755
			} else {
				perm = 0o644
			}
		}
		return perm, true
	}
	for _, e := range m.exts {
		if e.Pred.Matches(p, mode) {
			out = append(out, e.Name)
		}
	}
	return out
}

func (m *model) countSubtree(d string, rule string) {
	// every file below d that some extractor requires counts as excluded by rule
	for _, k := range m.fs.Children(d) {
		p := joinp(d, k)
		n := m.fs.Node(p)
		switch n.Kind {
		case memfs.KDir:
			m.countSubtree(p, rule)
		case memfs.KFile:
			if len(m.wantedBy(p)) > 0 {
				m.exp.Excluded[rule]++
			}
		}
	}
}

func (m *model) visitDir(d string) {
	m.exp.VisitedInodes++
	if r := m.skipped(d); r != "" {
		m.exp.Fired[r] = true
		m.countSubtree(d, r)
		return
	}
	for _, k := range m.fs.Children(d) {
		p := joinp(d, k)
		n := m.fs.Node(p)
		switch n.Kind {
		case memfs.KDir:
			m.visitDir(p)
		case memfs.KFile:
			m.exp.VisitedInodes++
			m.file(p, false)
		case memfs.KSymlink:
			m.exp.VisitedInodes++
			if m.cfg.ReadSymlinks {
				if r := m.skipRule(p); r == "skip_list" || r == "regex" || r == "glob" {
					// the rules are about directories; whether they also apply to a symlink
					// that carries a matching path is not pinned
					n0 := len(m.exp.Calls)
					m.file(p, false)
					m.exp.Optional = append(m.exp.Optional, m.exp.Calls[n0:]...)
					m.exp.Calls = m.exp.Calls[:n0]
					continue
				}
				m.file(p, false)
			}
		default:
			m.exp.VisitedInodes++
		}
	}
}

// file applies the per-file rules; requested tells that p was named explicitly.
func (m *model) file(p string, requested bool) {
	want := m.wantedBy(p)
	if m.cfg.UseGitignore && !requested && m.gitignored(p, false) {
		if len(want) > 0 {
			m.exp.Excluded["gitignore_file"]++
			m.exp.Fired["gitignore_file"] = true
		}
		return
	}
	if len(want) == 0 {
		return
	}
	_, tgt, err := m.fs.Lookup(p, true)
	if m.cfg.MaxFileSize > 0 {
		if err != nil {
			// lazy stat fails: C09's subject; the generator avoids it in C01.
			m.exp.DontCare = append(m.exp.DontCare, "size limit on an unresolvable symlink")
			return
		}
		if tgt.Kind != memfs.KFile {
			// the size a file system reports for a directory (or special file) target is
			// file-system dependent (0 in memory, 4096 on ext4): left open.
			m.exp.DontCare = append(m.exp.DontCare, "size limit on a symlink to a non-regular file")
			return
		}
		size := len(tgt.Content)
		if size > m.cfg.MaxFileSize {
			m.exp.Excluded["size_limit"]++
			m.exp.Fired["size_limit"] = true
			return
		}
	}
	if err != nil || tgt.Kind == memfs.KSpecial {
		return // cannot be opened: no Extract call (status effects are C09's subject)
	}
	for _, e := range want {
		m.exp.Calls = append(m.exp.Calls, Extraction{Ext: e, Path: p})
	}
}

// Expected computes the model's expectation. The FS must have been built from the tree
// (it is only used for structure and symlink resolution, never for listing order).
func Expected(fsys *memfs.FS, cfg Config, exts []recext.ExtSpec) Expectation {
	exp := Expectation{Excluded: map[string]int{}, Fired: map[string]bool{}}
	m := &model{fs: fsys, cfg: cfg, exts: exts, skipL: map[string]bool{}, req: map[string]bool{}, exp: &exp, gi: map[string][]giPattern{}}
	for _, d := range cfg.DirsToSkip {
		m.skipL[d] = true
	}
	for _, p := range cfg.PathsToExtract {
		m.req[p] = true
	}
	if cfg.Regex != "" {
		m.re = regexp.MustCompile(cfg.Regex)
	}
	if cfg.Glob != "" {
		m.gl = glob.MustCompile(cfg.Glob)
	}
	if len(cfg.PathsToExtract) == 0 {
		if cfg.IgnoreSubDirs {
			exp.DontCare = append(exp.DontCare, "sub-directory cut-off without requested paths")
		}
		m.visitDir(".")
	} else {
		for _, r := range cfg.PathsToExtract {
			n := m.fs.Node(r)
			if r == "." {
				n = &memfs.Node{Path: ".", Kind: memfs.KDir}
			}
			if n == nil {
				// through a symlinked ancestor, or missing
				if _, _, err := m.fs.Lookup(r, true); err == nil {
					exp.DontCare = append(exp.DontCare, "requested path reached through a symlink")
				}
				m.exp.VisitedInodes++
				continue
			}
			if n.Kind == memfs.KSymlink {
				exp.DontCare = append(exp.DontCare, "requested path is a symlink")
				continue
			}
			// an ancestor of the requested path matching a skip rule is left open
			anc := path.Dir(r)
			for r != "." {
				if rule := m.skipRule(anc); rule != "" {
					exp.DontCare = append(exp.DontCare, "ancestor of a requested path matches "+rule)
					break
				}
				if anc == "." {
					break
				}
				anc = path.Dir(anc)
			}
			switch n.Kind {
			case memfs.KDir:
				m.visitDir(r)
			case memfs.KFile:
				m.exp.VisitedInodes++
				if cfg.UseGitignore && m.gitignored(r, false) {
					exp.DontCare = append(exp.DontCare, "gitignore rule on an explicitly requested file")
				}
				m.file(r, true)
			default:
				m.exp.VisitedInodes++
			}
		}
	}
	sort.Slice(exp.Calls, func(i, j int) bool {
		if exp.Calls[i].Path != exp.Calls[j].Path {
			return exp.Calls[i].Path < exp.Calls[j].Path
		}
		return exp.Calls[i].Ext < exp.Calls[j].Ext
	})
	return exp
}
