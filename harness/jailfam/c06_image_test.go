// Package jailfam holds the image part of C06: loading or unpacking a container image never
// creates, modifies or deletes anything outside the directory designated for it, whatever entry
// names, link targets and entry orders its layer archives contain; no symlink left inside the
// target resolves to a location outside it; after CleanUp the image's temporary directory is gone.
//
// The package imports no cgo-dependent code and is built with CGO_ENABLED=0, so that the static
// test binary can chroot into the sandbox of each case: a hostile path that does escape the
// designated directory still cannot leave the sandbox. Without chroot permission the cases run
// unjailed, 96 directories deeper, and the evidence says so (jail_active).
//
// The spelling of the caller-chosen directory (the directory argument of the unpack loaders,
// TMPDIR for the others) is part of the domain: cleaned, trailing "/", "//" inside, "/./" inside,
// trailing "/.", relative with and without a leading "./"; in half of the cases the directory lies
// below otherwise empty directories, which are outside it and have to survive.
//
// Known finding c06.unpack_link_physical_escape (unpack vets link targets lexically): cases of its
// input class are either rewritten so that they leave the class, or kept and marked
// (imgCase.KnownPhys); for a marked case the oracle discounts what the finding explains - directories
// and symlinks created outside the target, symlinks left inside it that resolve outside - and still
// flags a regular file created outside the target and every change or deletion there. The
// self-referential-link family (genSelfRefFamily) builds the links that are inside for a lexical
// check and outside on disk ("t -> .", "out -> t/t/../..") by construction and writes below them.
package jailfam

import (
	"archive/tar"
	"bytes"
	"encoding/json"
	"fmt"
	"os"
	"path"
	"path/filepath"
	"runtime/debug"
	"sort"
	"strings"
	"syscall"
	"testing"

	"github.com/google/go-containerregistry/pkg/name"
	v1 "github.com/google/go-containerregistry/pkg/v1"
	"github.com/google/go-containerregistry/pkg/v1/empty"
	"github.com/google/go-containerregistry/pkg/v1/mutate"
	"github.com/google/go-containerregistry/pkg/v1/static"
	"github.com/google/go-containerregistry/pkg/v1/tarball"
	"github.com/google/go-containerregistry/pkg/v1/types"
	"github.com/google/osv-scalibr/artifact/image/layerscanning/image"
	"github.com/google/osv-scalibr/artifact/image/require"
	"github.com/google/osv-scalibr/artifact/image/unpack"
	scalibrlog "github.com/google/osv-scalibr/log"
	"pgregory.net/rapid"

	"verifharness/internal/ev"
	"verifharness/internal/sandbox"
)

// Known-finding classes (input classes of the image leg; see KNOWN_FINDINGS.txt).
const (
	// an entry handed to the unpack loaders whose cleaned name starts with "../" and which is
	// either a link entry (symlink / hard link: created wherever the name leads) or a regular
	// entry whose parent directory, after the escape, does not exist yet (MkdirAll creates it
	// before the containment check) or lies in a sibling sharing the target's string prefix
	// (the check is strings.HasPrefix). A regular entry dropped directly into an existing
	// directory outside the target ("../x") is refused correctly and stays in the generator.
	classUnpackDotDotName = "c06.unpack_dotdot_name"
	// a link entry whose target is lexically inside the image root but, followed through another
	// link entry of the same image, leaves the target directory (unpack checks targets lexically).
	// The finding explains directories and symlinks created outside the target and symlinks left
	// inside it that resolve outside; it does not explain a regular file written outside (the
	// resolved-parent check before WriteFile holds on the unchanged tree). Cases of the class are
	// therefore not only rewritten: see imgCase.KnownPhys.
	classUnpackLinkPhysical = "c06.unpack_link_physical_escape"
)

type tarEntry struct {
	Name string `json:"name"`
	Type string `json:"type"` // reg | dir | sym | hard
	Link string `json:"link,omitempty"`
	Body string `json:"body,omitempty"`
}

// dirSpec says where a caller-chosen directory lies and how the caller spells it. The zero value
// is the cleaned absolute path directly below B (see the sandbox layout).
type dirSpec struct {
	// Holders is the number (0..3) of otherwise EMPTY directories between the fixed part of the
	// layout and the directory: they are outside the designated directory and must still exist
	// afterwards.
	Holders int `json:"empty_ancestors,omitempty"`
	// RelFrom > 0: the directory is named relative to the directory RelFrom levels above it, which
	// is the working directory during the call; LeadDot puts "./" in front.
	RelFrom int  `json:"rel_from,omitempty"`
	LeadDot bool `json:"lead_dot,omitempty"`
	// Mid ("//", "///", "/./", "/././") replaces the separator number MidAt, counted from the end
	// (a leading separator is never replaced).
	Mid   string `json:"mid,omitempty"`
	MidAt int    `json:"mid_at,omitempty"`
	// Tail ("/", "//", "/.", "/./") is appended.
	Tail string `json:"tail,omitempty"`
}

type imgCase struct {
	Leg     string       `json:"leg"`    // "image"
	Loader  string       `json:"loader"` // v1image | tarball | unpack | unpack_tarball
	Layers  [][]tarEntry `json:"layers"`
	SymRes  string       `json:"symlink_resolution,omitempty"` // retain | ignore (unpack loaders)
	SymErr  string       `json:"symlink_errors,omitempty"`     // log | return
	MaxPass int          `json:"max_pass,omitempty"`
	// Dir: the directory argument of UnpackSquashed / UnpackSquashedFromTarball. TmpDir: TMPDIR, in
	// which FromV1Image / FromTarball create their ExtractDir and UnpackSquashed its scratch tar.
	Dir    dirSpec `json:"dir"`
	TmpDir dirSpec `json:"tmpdir"`
	// Shape: "" (hostile entries) | dangling_only | filtered_only | dangling_and_filtered: images
	// of which nothing is left once the loader has finished.
	Shape string `json:"shape,omitempty"`
	// Requirer: "" (all files) | none | link_names (only the names of the link entries).
	Requirer string `json:"requirer,omitempty"`
	// KnownPhys is set by the generator, and only while the known finding
	// c06.unpack_link_physical_escape is listed, on a case for the unpack loaders that belongs to the
	// input class of that finding (linkThroughLink holds for one of its link entries). For such a
	// case the oracle discounts exactly the effects the finding explains - directories and symlinks
	// CREATED outside the target (MkdirAll / Symlink run before or without a containment check) and
	// symlinks left inside the target that resolve outside it - and nothing else: a regular file
	// created outside, and any change or deletion of something that existed, is a violation. A case
	// without the flag (every witness file, every case once the finding is repaired) is decided by
	// the full oracle.
	KnownPhys bool `json:"known_link_physical,omitempty"`
}

// spell returns the spelling of the cleaned absolute path abs and the working directory the
// spelling is relative to ("" for an absolute spelling).
func (d dirSpec) spell(abs string) (spelled, cwd string) {
	s := abs
	if d.RelFrom > 0 {
		parts := strings.Split(strings.TrimPrefix(abs, "/"), "/")
		k := d.RelFrom
		if k > len(parts) {
			k = len(parts)
		}
		cwd = "/" + strings.Join(parts[:len(parts)-k], "/")
		s = strings.Join(parts[len(parts)-k:], "/")
		if d.LeadDot {
			s = "./" + s
		}
	}
	if d.Mid != "" {
		var seps []int
		for i := 1; i < len(s); i++ {
			if s[i] == '/' {
				seps = append(seps, i)
			}
		}
		if len(seps) > 0 && d.MidAt >= 0 {
			i := seps[len(seps)-1-d.MidAt%len(seps)]
			s = s[:i] + d.Mid + s[i+1:]
		}
	}
	return s + d.Tail, cwd
}

// spellingClasses labels a spelling (of a path without "." / empty segments of its own).
func spellingClasses(prefix, s string) []string {
	var out []string
	rel := !strings.HasPrefix(s, "/")
	switch {
	case s == path.Clean(s) && !rel:
		out = append(out, "cleaned")
	case s == path.Clean(s):
		out = append(out, "relative_cleaned", "relative")
	default:
		out = append(out, "non_cleaned")
		if rel {
			out = append(out, "relative")
		}
		if strings.HasPrefix(s, "./") {
			out = append(out, "leading_dot_slash")
		}
		if strings.HasSuffix(s, "/.") {
			out = append(out, "trailing_dot")
		}
		if strings.HasSuffix(s, "/") {
			out = append(out, "trailing_slash")
		}
		if strings.Contains(strings.TrimRight(s, "/"), "//") {
			out = append(out, "double_slash_inside")
		}
		if strings.Contains(s[1:len(s)-1], "/./") {
			out = append(out, "dot_segment_inside")
		}
	}
	for i := range out {
		out[i] = prefix + out[i]
	}
	return out
}

var (
	holderNames    = []string{"hold", "job-1", "u"} // empty ancestors of the target, below B
	tmpHolderNames = []string{"e1", "e2", "e3"}     // empty ancestors of TMPDIR, below B/tmp
)

func holderPath(names []string, n int) string {
	p := ""
	for i := 0; i < n && i < len(names); i++ {
		p += "/" + names[i]
	}
	return p
}

// vB, vT, vTmp: the layout in the name space of a virtual sandbox root (as inside the jail).
const vB = "/w/1/2/3/4/5"

func (c imgCase) vT() string   { return vB + holderPath(holderNames, c.Dir.Holders) + "/target" }
func (c imgCase) vTmp() string { return vB + "/tmp" + holderPath(tmpHolderNames, c.TmpDir.Holders) }

// UnmarshalJSON refuses cases of the scan leg (../fuzzfam).
func (c *imgCase) UnmarshalJSON(b []byte) error {
	type plain imgCase
	var p plain
	if err := json.Unmarshal(b, &p); err != nil {
		return err
	}
	if p.Leg != "image" {
		return fmt.Errorf("case belongs to leg %q, not to the image leg", p.Leg)
	}
	*c = imgCase(p)
	return nil
}

type quietLogger struct{}

func (quietLogger) Errorf(string, ...any) {}
func (quietLogger) Warnf(string, ...any)  {}
func (quietLogger) Infof(string, ...any)  {}
func (quietLogger) Debugf(string, ...any) {}
func (quietLogger) Error(...any)          {}
func (quietLogger) Warn(...any)           {}
func (quietLogger) Info(...any)           {}
func (quietLogger) Debug(...any)          {}

func init() {
	if os.Getenv("VERIF_LIBLOG") == "" {
		scalibrlog.SetLogger(quietLogger{})
	}
}

// ---------------------------------------------------------------------------------------
// Jail.

var (
	rootDir    *os.File // the real root, opened before the first chroot
	jailTried  bool
	jailWorks  bool
	unjailedFn = 96 // extra nesting when there is no jail (see climbBound)
)

// enterJail chroots into dir. It returns false when chroot is not permitted.
func enterJail(dir string) bool {
	if os.Getenv("C06_NOJAIL") != "" {
		return false
	}
	if rootDir == nil {
		f, err := os.Open("/")
		if err != nil {
			return false
		}
		rootDir = f
	}
	if err := syscall.Chroot(dir); err != nil {
		return false
	}
	if err := os.Chdir("/"); err != nil {
		panic("harness: chdir inside jail: " + err.Error())
	}
	return true
}

// leaveJail returns to the real root (the process is root, it holds a descriptor of the real
// root directory: fchdir + chroot(".") undoes the jail).
func leaveJail(wd string) error {
	if err := rootDir.Chdir(); err != nil {
		return err
	}
	if err := syscall.Chroot("."); err != nil {
		return err
	}
	return os.Chdir(wd)
}

// ---------------------------------------------------------------------------------------
// Sandbox layout. R is the sandbox root as the loaders see it ("/" inside the jail).
//
//	R/canary.txt
//	R/w/1/2/3/4/5            = B (six directories below R; a canary at every level)
//	B/target                 the caller's target directory (unpack loaders), or with
//	B/hold[/job-1[/u]]/target  one to three otherwise empty directories above it (Dir.Holders)
//	B/target-evil/keep       sibling sharing the target's string prefix
//	B/outside/secret.txt     a sibling directory
//	B/tmp[/e1[/e2[/e3]]]     TMPDIR (ExtractDir of the image loaders is created here), possibly
//	                         below otherwise empty directories (TmpDir.Holders)
//	B/in/image.tar           the tarball handed to FromTarball / UnpackSquashedFromTarball

type layout struct {
	R, B, T, Tmp, In string
}

var nest = []string{"w", "1", "2", "3", "4", "5"}

func buildLayout(R string, c imgCase) (layout, error) {
	l := layout{R: R}
	cur := R
	write := func(p, s string) error { return os.WriteFile(p, []byte(s), 0o644) }
	if err := write(filepath.Join(cur, "canary.txt"), "canary at the sandbox root\n"); err != nil {
		return l, err
	}
	for _, d := range nest {
		cur = filepath.Join(cur, d)
		if err := os.Mkdir(cur, 0o755); err != nil {
			return l, err
		}
		if err := write(filepath.Join(cur, "canary.txt"), "canary in "+d+"\n"); err != nil {
			return l, err
		}
	}
	l.B = cur
	l.T = filepath.Join(cur, holderPath(holderNames, c.Dir.Holders), "target")
	l.Tmp = filepath.Join(cur, "tmp", holderPath(tmpHolderNames, c.TmpDir.Holders))
	l.In = filepath.Join(cur, "in")
	for _, d := range []string{l.T, l.Tmp, l.In, filepath.Join(cur, "target-evil"), filepath.Join(cur, "outside")} {
		if err := os.MkdirAll(d, 0o755); err != nil {
			return l, err
		}
	}
	if err := write(filepath.Join(cur, "target-evil", "keep"), "prefix sibling\n"); err != nil {
		return l, err
	}
	if err := write(filepath.Join(cur, "outside", "secret.txt"), "secret\n"); err != nil {
		return l, err
	}
	return l, nil
}

func (l layout) subst(s string) string {
	r := strings.TrimRight(l.R, "/")
	s = strings.ReplaceAll(s, "${T}", l.T)
	s = strings.ReplaceAll(s, "${B}", l.B)
	s = strings.ReplaceAll(s, "${R}", r)
	return s
}

// ---------------------------------------------------------------------------------------
// Tar and image builders.

func tarBytes(l layout, entries []tarEntry) []byte {
	var buf bytes.Buffer
	tw := tar.NewWriter(&buf)
	for _, e := range entries {
		h := &tar.Header{Name: l.subst(e.Name), Mode: 0o644, Format: tar.FormatPAX}
		switch e.Type {
		case "reg":
			h.Typeflag = tar.TypeReg
			h.Size = int64(len(e.Body))
		case "dir":
			h.Typeflag = tar.TypeDir
			h.Mode = 0o755
		case "sym":
			h.Typeflag = tar.TypeSymlink
			h.Linkname = l.subst(e.Link)
		case "hard":
			h.Typeflag = tar.TypeLink
			h.Linkname = l.subst(e.Link)
		default:
			continue
		}
		if err := tw.WriteHeader(h); err != nil {
			// a name the tar format cannot carry: restart the writer state by skipping the entry
			continue
		}
		if e.Type == "reg" {
			_, _ = tw.Write([]byte(e.Body))
		}
	}
	_ = tw.Close()
	return buf.Bytes()
}

func buildImage(l layout, c imgCase) (v1.Image, error) {
	var layers []v1.Layer
	for _, es := range c.Layers {
		b := tarBytes(l, es)
		// uncompressed layers: gzip writers cost more than everything else in a case
		layers = append(layers, static.NewLayer(b, types.DockerUncompressedLayer))
	}
	return mutate.AppendLayers(empty.Image, layers...)
}

// ---------------------------------------------------------------------------------------
// Generator.

var segAlphabet = []string{"..", "..", "..", ".", "", "a", "b", "l", "up", "target", "target-evil", "outside", "tmp", "canary.txt", "secret.txt", "keep", "x", "hold"}

func genSegs(t *rapid.T, label string, maxSegs int) string {
	n := rapid.IntRange(1, maxSegs).Draw(t, label+"_n")
	var segs []string
	dd := 0
	for i := 0; i < n; i++ {
		s := rapid.SampledFrom(segAlphabet).Draw(t, label+"_seg")
		// very long components: 300 bytes (over NAME_MAX, the entry cannot exist) and 200 bytes (it can)
		switch rapid.IntRange(0, 79).Draw(t, label+"_long") {
		case 0:
			s = "LONG"
		case 1:
			s = strings.Repeat("M", 200)
		}
		if s == ".." {
			if dd >= 4 {
				s = "a"
			} else {
				dd++
			}
		}
		if s == "LONG" {
			s = strings.Repeat("L", 300)
		}
		segs = append(segs, s)
	}
	return strings.Join(segs, "/")
}

var absPrefixes = []string{"", "", "", "", "/", "./", "${T}/", "${B}/", "${R}/", "${R}/w/", "${B}/target-evil/", "${B}/outside/", "//"}

func genPath(t *rapid.T, label string) string {
	p := rapid.SampledFrom(absPrefixes).Draw(t, label+"_prefix")
	if p == "/" || p == "//" {
		p = "${R}" + p // image-absolute; inside the jail ${R} is empty
	}
	s := p + genSegs(t, label, 6)
	if rapid.IntRange(0, 9).Draw(t, label+"_slash") == 0 {
		s += "/"
	}
	return s
}

func genEntry(t *rapid.T) tarEntry {
	e := tarEntry{Type: rapid.SampledFrom([]string{"reg", "reg", "reg", "dir", "sym", "sym", "sym", "hard"}).Draw(t, "type")}
	e.Name = genPath(t, "name")
	switch e.Type {
	case "reg":
		e.Body = rapid.SampledFrom([]string{"", "x", "hostile content\n"}).Draw(t, "body")
	case "sym", "hard":
		e.Link = genPath(t, "link")
	}
	return e
}

// genWriteThrough draws a link entry and an entry whose name passes through the link.
// With shared != "" a quarter of the links take that target string instead of a fresh one, so that
// links of different depths (l, a/l, a/b/up) carry byte-identical targets.
func genWriteThrough(t *rapid.T, shared string) (tarEntry, tarEntry) {
	ln := rapid.SampledFrom([]string{"l", "a/l", "up", "a/b/up", "x/l"}).Draw(t, "wt_link_name")
	link := tarEntry{Name: ln, Type: rapid.SampledFrom([]string{"sym", "sym", "hard"}).Draw(t, "wt_type"), Link: genPath(t, "wt_target")}
	if shared != "" && rapid.IntRange(0, 3).Draw(t, "wt_shared") == 0 {
		link.Link = shared
	}
	through := genEntry(t)
	through.Name = ln + "/" + genSegs(t, "wt_rest", 3)
	return link, through
}

// ---------------------------------------------------------------------------------------
// Shared link targets. Whether a relative link target leaves the designated directory depends on
// the directory of the link, not on the target string alone: "../.." is usr/ for usr/lib/app/up and
// the parent of the unpack directory for opt/up. A group is 2..4 link entries (symlinks and hard
// links) at depths 1..5 that carry one byte-identical target string from sharedTargetPool, in a
// chosen stream order (deepest first, shallowest first, as drawn), inside one layer or spread over
// the layers in stream order, each usually followed by a regular entry written through it
// (<link>/escaped/<file>).
//
// Bounds (safety of the host, see climbBound): a pool string has at most three ".." segments, the
// names of a group have none, a group has at most four links.

var sharedTargetPool = []string{
	"..", "../..", "../..", "../../..", "../x", "../../x",
	"../outside", "../../outside", "../../../outside", "../../target-evil", "../../tmp", "../../in", "../../target", "../../../5",
	"./..", "./../..", "a/../../..", "a/../..", "../.", "../../.", "..//..", "../../",
}

var (
	sharedDirs  = []string{"usr", "lib", "app", "opt", "srv", "v1"} // never the name of a link
	sharedLeafs = []string{"up", "lnk", "back"}                     // never the name of a directory
)

// streamLayers lists the layer indices in the order in which the loader reads them: UnpackSquashed
// flattens the image with mutate.Extract (top layer first), the flat tar of
// UnpackSquashedFromTarball and the layer-scanning loaders go bottom-up.
func streamLayers(loader string, nl int) []int {
	ord := make([]int, nl)
	for i := range ord {
		ord[i] = i
		if loader == "unpack" {
			ord[i] = nl - 1 - i
		}
	}
	return ord
}

func genSharedTargetGroup(t *rapid.T, c *imgCase, target string) {
	nl := len(c.Layers)
	k := rapid.IntRange(2, 4).Draw(t, "sg_links")
	depths := make([]int, k)
	depths[0] = rapid.IntRange(1, 5).Draw(t, "sg_depth")
	// the second depth differs from the first by construction
	d := rapid.IntRange(1, 4).Draw(t, "sg_depth")
	if d >= depths[0] {
		d++
	}
	depths[1] = d
	for i := 2; i < k; i++ {
		depths[i] = rapid.IntRange(1, 5).Draw(t, "sg_depth")
	}
	switch rapid.SampledFrom([]string{"deep_first", "deep_first", "shallow_first", "as_drawn"}).Draw(t, "sg_order") {
	case "deep_first":
		sortInts(depths, true)
	case "shallow_first":
		sortInts(depths, false)
	}
	type item struct {
		e    tarEntry
		link int // index of the link the item belongs to
	}
	var items []item
	used := map[string]bool{}
	for i, depth := range depths {
		var segs []string
		for j := 0; j < depth-1; j++ {
			segs = append(segs, rapid.SampledFrom(sharedDirs).Draw(t, "sg_dir"))
		}
		segs = append(segs, rapid.SampledFrom(sharedLeafs).Draw(t, "sg_leaf"))
		name := strings.Join(segs, "/")
		if used[name] {
			continue
		}
		used[name] = true
		typ := rapid.SampledFrom([]string{"sym", "sym", "hard"}).Draw(t, "sg_type")
		items = append(items, item{tarEntry{Name: name, Type: typ, Link: target}, i})
	}
	// write-through entries: after their link (seven of eight) or anywhere before it
	links := append([]item{}, items...)
	for _, lk := range links {
		if rapid.IntRange(0, 3).Draw(t, "sg_through") == 0 {
			continue
		}
		ln := lk.e.Name
		w := tarEntry{Name: ln + "/escaped/" + rapid.SampledFrom([]string{"pwned.txt", "canary.txt", "d/f"}).Draw(t, "sg_file"), Type: "reg", Body: "written through " + ln + "\n"}
		if rapid.IntRange(0, 9).Draw(t, "sg_through_dir") == 0 {
			w = tarEntry{Name: ln + "/escaped", Type: "dir"}
		}
		at := 0
		for j := range items {
			if items[j].link == lk.link && items[j].e.Name == ln {
				at = j + 1
			}
		}
		pos := 0
		if rapid.IntRange(0, 7).Draw(t, "sg_through_before") == 0 {
			pos = rapid.IntRange(0, at-1).Draw(t, "sg_through_at")
		} else {
			pos = rapid.IntRange(at, len(items)).Draw(t, "sg_through_at")
		}
		items = append(items[:pos], append([]item{{w, lk.link}}, items[pos:]...)...)
	}
	// an anchor that makes "../x" and "../../x" exist for the links one and two directories deep
	if rapid.IntRange(0, 3).Draw(t, "sg_anchor") == 0 {
		items = append([]item{{tarEntry{Name: "x/keep.txt", Type: "reg", Body: "x"}, -1}}, items...)
	}
	// placement: one layer, or spread over the layers without changing the stream order
	ord := streamLayers(c.Loader, nl)
	slot := rapid.IntRange(0, nl-1).Draw(t, "sg_slot")
	spread := nl > 1 && rapid.Bool().Draw(t, "sg_spread")
	for _, it := range items {
		if spread && slot < nl-1 {
			slot += rapid.IntRange(0, 1).Draw(t, "sg_next_layer")
		}
		c.Layers[ord[slot]] = append(c.Layers[ord[slot]], it.e)
	}
}

func sortInts(a []int, descending bool) {
	for i := 1; i < len(a); i++ {
		for j := i; j > 0 && ((descending && a[j] > a[j-1]) || (!descending && a[j] < a[j-1])); j-- {
			a[j], a[j-1] = a[j-1], a[j]
		}
	}
}

// ---------------------------------------------------------------------------------------
// Self-referential links. A link whose target is its own directory or an ancestor of it inside the
// image ("t -> .", "t -> x/..", "a/t2 -> ..", "a/b/t4 -> ../..", an alias "p -> t") makes a name
// longer without leading anywhere: t/t/t is the unpack directory itself on disk but three levels
// deep lexically. A climb link hops through such links and then climbs with as many ".." as the
// hops have gained: "out -> t/t/../.." is the image root for a lexical check (TargetOutsideRoot)
// and two directories above the unpack directory on disk. Later climb links may hop through earlier
// ones (chains). Below the climb links the family writes regular files (mostly), links and
// directories at depth 1, 2 and 3, and every name of the family is spelled in one of the styles an
// archive may use: "out/f", "./out/f", "/out/f", "out//f", "out/./f".
//
// Bounds (safety of the host, see climbBound): at most three self links / aliases with at most three
// ".." each, at most three climb links with at most three ".." each and at most three entries below
// each of them, of which the link entries have at most one "..", no ".." in any name: the family
// adds at most 27 to the bound, and a case with the family has at most four other entries.

var (
	selfRootNames   = []string{"t", "s", "self"}
	selfRootTargets = []string{".", ".", ".", "./", "./.", "x/..", "./x/..", "x/../."}
	selfSub1Targets = []string{"..", "..", "../", "../.", "./..", "../x/.."}
	selfSub2Targets = []string{"../..", "../..", "../../.", "..//..", "../../x/.."}
	climbNames      = []string{"out", "esc", "up2"}
	climbSuffixes   = []string{"", "", "", "", "", "", "", "outside", "target-evil", "tmp", "in", "5", "x", "hold"}
	belowLeafs      = []string{"pwned.txt", "pwned.txt", "pwned.txt", "new.cfg", "canary.txt", "keep", "secret.txt"}
	nameStyles      = []string{"plain", "plain", "plain", "dot_slash", "dot_slash", "abs", "inner_double_slash", "inner_dot"}
)

// styleName spells the cleaned relative name n in the given style.
func styleName(n, style string) string {
	switch style {
	case "dot_slash":
		return "./" + n
	case "abs":
		return "/" + n
	case "inner_double_slash":
		if i := strings.LastIndex(n, "/"); i >= 0 {
			return n[:i] + "//" + n[i+1:]
		}
		return ".//" + n
	case "inner_dot":
		if i := strings.LastIndex(n, "/"); i >= 0 {
			return n[:i] + "/./" + n[i+1:]
		}
		return "././" + n
	}
	return n
}

// nameStyleOf is the inverse of styleName for labelling (any entry name).
func nameStyleOf(n string) string {
	switch {
	case strings.Contains(n, "${"):
		return "placeholder"
	case strings.HasPrefix(n, "/"):
		return "abs"
	case n == path.Clean(n):
		return "plain"
	case strings.HasPrefix(n, "./") && n[2:] == path.Clean(n):
		return "dot_slash"
	case strings.Contains(n, "//"):
		return "inner_double_slash"
	case strings.Contains(n, "/./") || strings.HasPrefix(n, "./"):
		return "inner_dot"
	}
	return "other"
}

func genSelfRefFamily(t *rapid.T, c *imgCase) {
	nl := len(c.Layers)
	linkType := func() string { return rapid.SampledFrom([]string{"sym", "sym", "sym", "hard"}).Draw(t, "sr_type") }
	type hop struct {
		name string // relative to the unpack directory
		gain int    // lexical depth gained
		stay bool   // resolves to the unpack directory on disk (further hops by name remain possible)
	}
	var links, below []tarEntry
	var hops []hop
	needX := false
	addLink := func(name, target string) {
		needX = needX || strings.Contains(target, "x/")
		links = append(links, tarEntry{Name: name, Type: linkType(), Link: target})
	}
	// self links: one directly in the unpack directory, then up to two more of any kind
	used := map[string]bool{}
	nSelf := rapid.IntRange(1, 3).Draw(t, "sr_self")
	for i := 0; i < nSelf; i++ {
		kind := "root"
		if i > 0 {
			kind = rapid.SampledFrom([]string{"root", "alias", "sub1", "sub1", "sub1_own_dir", "sub2"}).Draw(t, "sr_self_kind")
		}
		var h hop
		var target string
		switch kind {
		case "root":
			h = hop{rapid.SampledFrom(selfRootNames).Draw(t, "sr_self_name"), 1, true}
			target = rapid.SampledFrom(selfRootTargets).Draw(t, "sr_self_target")
		case "alias": // a link to the first self link
			h = hop{rapid.SampledFrom([]string{"p", "q2"}).Draw(t, "sr_alias_name"), 1, true}
			target = rapid.SampledFrom([]string{"", "./", "x/../"}).Draw(t, "sr_alias_via") + hops[0].name
		case "sub1": // one directory deep, back to the unpack directory
			h = hop{"a/t2", 2, true}
			target = rapid.SampledFrom(selfSub1Targets).Draw(t, "sr_self_target")
		case "sub1_own_dir": // one directory deep, its own directory: one level below the unpack directory
			h = hop{"a/t3", 2, false}
			target = rapid.SampledFrom([]string{".", "./", "../a"}).Draw(t, "sr_self_target")
		case "sub2":
			h = hop{"a/b/t4", 3, true}
			target = rapid.SampledFrom(selfSub2Targets).Draw(t, "sr_self_target")
		}
		if used[h.name] {
			continue
		}
		used[h.name] = true
		addLink(h.name, target)
		hops = append(hops, h)
	}
	// climb links
	nClimb := rapid.IntRange(1, 3).Draw(t, "sr_climb")
	for i := 0; i < nClimb; i++ {
		name := climbNames[i]
		dirPrefix := 0 // ".." segments that lead from the link's directory to the image root
		switch rapid.IntRange(0, 5).Draw(t, "sr_climb_dir") {
		case 0:
			name, dirPrefix = "d1/"+name, 1
		case 1:
			name, dirPrefix = "a/"+name, 1
		}
		var segs []string
		for j := 0; j < dirPrefix; j++ {
			segs = append(segs, "..")
		}
		gain := 0
		nh := rapid.IntRange(1, 3).Draw(t, "sr_hops")
		for j := 0; j < nh; j++ {
			var stay []hop
			for _, h := range hops {
				if h.stay {
					stay = append(stay, h)
				}
			}
			pool := stay
			if j == nh-1 {
				pool = hops // the last hop may leave the unpack directory: an earlier climb link, a/t3
			}
			h := rapid.SampledFrom(pool).Draw(t, "sr_hop")
			segs = append(segs, h.name)
			gain += h.gain
			if !h.stay {
				break
			}
		}
		maxDD := 3 - dirPrefix
		if gain < maxDD {
			maxDD = gain
		}
		dd := maxDD
		switch rapid.IntRange(0, 11).Draw(t, "sr_dd") {
		case 0:
			dd = 0 // harmless
		case 1, 2, 3:
			dd = rapid.IntRange(1, maxDD).Draw(t, "sr_dd_n")
		}
		for j := 0; j < dd; j++ {
			segs = append(segs, "..")
		}
		// one of the climbs between the hops instead of after them (lexically equivalent; on disk
		// the later hops then start from above the unpack directory and find nothing)
		if dd > 0 && len(segs)-dirPrefix-dd >= 2 && rapid.IntRange(0, 7).Draw(t, "sr_interleave") == 0 {
			at := dirPrefix + 1
			segs = append(segs[:at], append([]string{".."}, segs[at:len(segs)-1]...)...)
		}
		if sfx := rapid.SampledFrom(climbSuffixes).Draw(t, "sr_suffix"); sfx != "" {
			segs = append(segs, sfx)
		}
		target := strings.Join(segs, "/")
		if rapid.IntRange(0, 9).Draw(t, "sr_target_dot") == 0 {
			target = "./" + target
		}
		addLink(name, target)
		if dirPrefix == 0 {
			hops = append(hops, hop{name, 1, false})
		}
		// entries below the climb link: depth 1 (half), 2, 3
		nb := rapid.SampledFrom([]int{0, 1, 1, 1, 1, 2, 2, 3}).Draw(t, "sr_below")
		for j := 0; j < nb; j++ {
			rest := rapid.SampledFrom([]string{"", "", "d/", "d/e/"}).Draw(t, "sr_below_dirs") + rapid.SampledFrom(belowLeafs).Draw(t, "sr_below_leaf")
			e := tarEntry{Name: name + "/" + rest, Type: rapid.SampledFrom([]string{"reg", "reg", "reg", "reg", "reg", "reg", "sym", "dir"}).Draw(t, "sr_below_type")}
			switch e.Type {
			case "reg":
				e.Body = "written below " + name + "\n"
			case "sym":
				e.Type = linkType()
				e.Link = rapid.SampledFrom([]string{".", "pwned.txt", "canary.txt", "..", "missing"}).Draw(t, "sr_below_target")
			}
			below = append(below, e)
		}
	}
	// a regular entry written through the self links themselves lands in the unpack directory
	if rapid.IntRange(0, 3).Draw(t, "sr_self_through") == 0 {
		h := hops[0].name
		below = append(below, tarEntry{Name: h + "/" + h + "/inside.txt", Type: "reg", Body: "through " + h + "\n"})
	}
	var items []tarEntry
	if needX && rapid.IntRange(0, 7).Draw(t, "sr_no_anchor") != 0 {
		items = append(items, tarEntry{Name: "x/keep.txt", Type: "reg", Body: "x"})
	}
	switch rapid.SampledFrom([]string{"natural", "natural", "natural", "natural", "natural", "natural", "natural", "below_first", "reversed"}).Draw(t, "sr_order") {
	case "natural":
		items = append(append(items, links...), below...)
	case "below_first":
		items = append(append(items, below...), links...)
	case "reversed":
		all := append(append([]tarEntry{}, links...), below...)
		for i := len(all) - 1; i >= 0; i-- {
			items = append(items, all[i])
		}
	}
	// one style for the whole family (half of the cases) or one per entry
	style := rapid.SampledFrom(nameStyles).Draw(t, "sr_style")
	perEntry := rapid.Bool().Draw(t, "sr_style_per_entry")
	ord := streamLayers(c.Loader, nl)
	slot := rapid.IntRange(0, nl-1).Draw(t, "sr_slot")
	spread := nl > 1 && rapid.IntRange(0, 2).Draw(t, "sr_spread") == 0
	for _, e := range items {
		if perEntry {
			style = rapid.SampledFrom(nameStyles).Draw(t, "sr_style")
		}
		e.Name = styleName(e.Name, style)
		if spread && slot < nl-1 {
			slot += rapid.IntRange(0, 1).Draw(t, "sr_next_layer")
		}
		c.Layers[ord[slot]] = append(c.Layers[ord[slot]], e)
	}
}

// genDirSpec draws the place and the spelling of a caller-chosen directory: below 0..3 otherwise
// empty directories (half of the cases: none); spelled as the cleaned absolute path (one case in
// five), with a trailing "/" or "//", with "//" or "///" in place of an inner separator, with a
// "/./" segment, with a trailing "/." or "/./", relative to a working directory one to four levels
// above it with and without a leading "./" (only where the entry point accepts a relative path),
// or as a free combination of these.
func genDirSpec(t *rapid.T, label string, allowRel bool) dirSpec {
	d := dirSpec{Holders: rapid.SampledFrom([]int{0, 0, 0, 1, 2, 3}).Draw(t, label+"_empty_ancestors")}
	mid := func(pool ...string) {
		d.Mid = rapid.SampledFrom(pool).Draw(t, label+"_mid")
		if d.Mid != "" {
			d.MidAt = rapid.IntRange(0, 5).Draw(t, label+"_mid_at")
		}
	}
	kind := rapid.SampledFrom([]string{"clean", "clean", "trailing_slash", "double_slash", "dot_segment", "trailing_dot", "rel_dot", "rel_clean", "combo", "combo"}).Draw(t, label+"_spelling")
	if !allowRel && strings.HasPrefix(kind, "rel_") {
		kind = "combo"
	}
	switch kind {
	case "trailing_slash":
		d.Tail = rapid.SampledFrom([]string{"/", "/", "/", "//"}).Draw(t, label+"_tail")
	case "double_slash":
		mid("//", "//", "///")
	case "dot_segment":
		mid("/./", "/./", "/././")
	case "trailing_dot":
		d.Tail = rapid.SampledFrom([]string{"/.", "/.", "/./"}).Draw(t, label+"_tail")
	case "rel_dot":
		d.RelFrom = rapid.IntRange(1, 4).Draw(t, label+"_rel_from")
		d.LeadDot = true
	case "rel_clean":
		d.RelFrom = rapid.IntRange(1, 4).Draw(t, label+"_rel_from")
	case "combo":
		if allowRel && rapid.Bool().Draw(t, label+"_rel") {
			d.RelFrom = rapid.IntRange(1, 4).Draw(t, label+"_rel_from")
			d.LeadDot = rapid.Bool().Draw(t, label+"_lead_dot")
		}
		mid("", "//", "/./")
		d.Tail = rapid.SampledFrom([]string{"", "/", "/.", "//", "/./"}).Draw(t, label+"_tail")
	}
	return d
}

// Images of which nothing is left after unpacking. A dangling link is a symlink or hard-link entry
// with a harmless name whose destination does not exist in the image: the unpack loaders create it
// and remove it again as obsolete. A filtered entry is one the loaders skip: a directory entry, a
// name that climbs out of the unpack directory, a link whose target lies outside the image root
// (its parent directories are still created, so half of these sit at depth one), a regular entry
// that the requirer does not ask for.

var (
	emptyDirs  = []string{"usr", "lib", "etc", "opt", "alternatives", "v1"} // never the name of a link
	emptyLeafs = []string{"libfoo.so", "editor", "lnk", "up", "back"}       // never the name of a directory
	// "${SELF}" is the link's own base name (a loop), "${PREV}" the name of the previous dangling
	// link of the case, image-absolute (a chain that ends nowhere)
	danglingTargets = []string{"libfoo.so.1", "missing", "./gone", "missing/deeper", "../missing", "/usr/bin/no-such-editor", "/missing",
		"${T}/nowhere", "${SELF}", "${PREV}", "a/../nothing", "/lib/../nothing"}
	outsideTargets = []string{"..", "../..", "../../..", "/..", "/../x", "../outside", "../../hold"}
)

func genEmptyName(t *rapid.T, maxDepth int) string {
	depth := rapid.IntRange(1, maxDepth).Draw(t, "em_depth")
	var segs []string
	for j := 0; j < depth-1; j++ {
		segs = append(segs, rapid.SampledFrom(emptyDirs).Draw(t, "em_dir"))
	}
	return strings.Join(append(segs, rapid.SampledFrom(emptyLeafs).Draw(t, "em_leaf")), "/")
}

func genEmptyShape(t *rapid.T, c *imgCase) {
	nl := len(c.Layers)
	add := func(e tarEntry) {
		li := rapid.IntRange(0, nl-1).Draw(t, "em_layer")
		c.Layers[li] = append(c.Layers[li], e)
	}
	prev := ""
	dangling := func() {
		e := tarEntry{Name: genEmptyName(t, 4), Type: rapid.SampledFrom([]string{"sym", "sym", "sym", "hard"}).Draw(t, "em_type")}
		e.Link = rapid.SampledFrom(danglingTargets).Draw(t, "em_target")
		switch e.Link {
		case "${SELF}":
			e.Link = path.Base(e.Name)
		case "${PREV}":
			e.Link = "/" + prev
			if prev == "" || prev == e.Name {
				e.Link = "/missing"
			}
		}
		prev = e.Name
		add(e)
	}
	filtered := func() {
		switch rapid.SampledFrom([]string{"dir", "dotdot_name", "dotdot_name", "outside_target", "outside_target", "unrequired"}).Draw(t, "em_filtered") {
		case "dir":
			add(tarEntry{Name: rapid.SampledFrom(emptyDirs).Draw(t, "em_dir") + rapid.SampledFrom([]string{"", "/", "/v1", "/v1/"}).Draw(t, "em_dir_tail"), Type: "dir"})
		case "dotdot_name":
			e := tarEntry{Type: rapid.SampledFrom([]string{"reg", "sym", "hard"}).Draw(t, "em_type")}
			e.Name = rapid.SampledFrom([]string{"../x", "../../x", "a/../../x", "./../x", "../hold/x", "../target-evil/x", "..", "../"}).Draw(t, "em_dd_name")
			if e.Type == "reg" {
				e.Body = "x"
			} else {
				e.Link = rapid.SampledFrom(danglingTargets[:7]).Draw(t, "em_target")
			}
			add(e)
		case "outside_target":
			maxDepth := 1
			if rapid.Bool().Draw(t, "em_deep") {
				maxDepth = 3
			}
			add(tarEntry{Name: genEmptyName(t, maxDepth), Type: rapid.SampledFrom([]string{"sym", "sym", "hard"}).Draw(t, "em_type"),
				Link: rapid.SampledFrom(outsideTargets).Draw(t, "em_out_target")})
		case "unrequired":
			// a regular entry next to a requirer that does not ask for it
			if c.Requirer == "" {
				c.Requirer = rapid.SampledFrom([]string{"none", "link_names", "link_names"}).Draw(t, "em_requirer")
			}
			add(tarEntry{Name: genEmptyName(t, 3) + ".txt", Type: "reg", Body: "not required\n"})
		}
	}
	n := rapid.IntRange(1, 5).Draw(t, "em_entries")
	for i := 0; i < n; i++ {
		switch c.Shape {
		case "dangling_only":
			dangling()
		case "filtered_only":
			filtered()
		default:
			if i == 0 || rapid.Bool().Draw(t, "em_dangling") {
				dangling()
			} else {
				filtered()
			}
		}
	}
}

func genImgCase(t *rapid.T) imgCase {
	col := ev.Get("C06")
	c := imgCase{Leg: "image"}
	c.Loader = rapid.SampledFrom([]string{"v1image", "tarball", "unpack", "unpack_tarball"}).Draw(t, "loader")
	// the caller-chosen directories: the directory argument of the unpack loaders, and TMPDIR for
	// the loaders that create something there
	if strings.HasPrefix(c.Loader, "unpack") {
		c.Dir = genDirSpec(t, "dir", true)
	}
	if c.Loader != "unpack_tarball" {
		c.TmpDir = genDirSpec(t, "tmpdir", false)
	}
	c.Requirer = rapid.SampledFrom([]string{"", "", "", "", "", "", "none", "link_names"}).Draw(t, "requirer")
	c.Shape = rapid.SampledFrom([]string{"", "", "", "", "", "", "dangling_only", "dangling_only", "filtered_only", "dangling_and_filtered"}).Draw(t, "shape")
	if strings.HasPrefix(c.Loader, "unpack") {
		c.SymRes = rapid.SampledFrom([]string{"retain", "retain", "ignore"}).Draw(t, "symres")
		if c.Loader == "unpack" {
			c.SymRes = "retain" // UnpackSquashed rejects symlink_ignore up front
		}
		c.SymErr = rapid.SampledFrom([]string{"log", "return"}).Draw(t, "symerr")
		c.MaxPass = rapid.IntRange(1, 3).Draw(t, "maxpass")
	}
	nl := rapid.IntRange(1, 3).Draw(t, "layers")
	c.Layers = make([][]tarEntry, nl)
	// cases of the input class of the known finding c06.unpack_link_physical_escape: half of them
	// are kept and decided by the oracle that discounts what the finding explains (imgCase.KnownPhys),
	// the other half is rewritten so that it leaves the class and is decided by the full oracle
	keepPhys := rapid.Bool().Draw(t, "keep_known_link_physical")
	if c.Shape != "" {
		genEmptyShape(t, &c)
		return finishImgCase(col, c, keepPhys)
	}
	// the self-referential-link family: one case in three, always kept in the known class, placed
	// before, between or after at most four other entries; seven of eight of these cases ask for all
	// files and keep the links as links (the configuration in which a link can lead anywhere)
	if rapid.IntRange(0, 2).Draw(t, "selfref_family") == 0 {
		if rapid.IntRange(0, 7).Draw(t, "selfref_all_files") != 0 {
			c.Requirer = ""
		}
		if c.SymRes != "" && rapid.IntRange(0, 7).Draw(t, "selfref_retain") != 0 {
			c.SymRes = "retain"
		}
		n := rapid.IntRange(0, 4).Draw(t, "entries")
		famAt := rapid.IntRange(0, n).Draw(t, "selfref_family_at")
		for i := 0; i <= n; i++ {
			if i == famAt {
				genSelfRefFamily(t, &c)
			}
			if i == n {
				break
			}
			li := rapid.IntRange(0, nl-1).Draw(t, "layer")
			c.Layers[li] = append(c.Layers[li], genEntry(t))
		}
		return finishImgCase(col, c, true)
	}
	// the shared-link-target shape: in two of five cases one group of links that carry the same
	// relative target string at different depths, placed before, between or after the other entries
	// (of which there are then at most five: see climbBound)
	shared := ""
	groupAt := -1
	maxEntries := 7
	if rapid.IntRange(0, 4).Draw(t, "shared_group") < 2 {
		shared = rapid.SampledFrom(sharedTargetPool).Draw(t, "shared_target")
		maxEntries = 5
	}
	n := rapid.IntRange(1, maxEntries).Draw(t, "entries")
	if shared != "" {
		groupAt = rapid.IntRange(0, n).Draw(t, "shared_group_at")
	}
	for i := 0; i <= n; i++ {
		if i == groupAt {
			genSharedTargetGroup(t, &c, shared)
		}
		if i == n {
			break
		}
		li := rapid.IntRange(0, nl-1).Draw(t, "layer")
		if rapid.IntRange(0, 2).Draw(t, "writethrough") == 0 {
			a, b := genWriteThrough(t, shared)
			lj := rapid.IntRange(0, nl-1).Draw(t, "layer2")
			if rapid.Bool().Draw(t, "swap") {
				a, b = b, a
			}
			c.Layers[li] = append(c.Layers[li], a)
			c.Layers[lj] = append(c.Layers[lj], b)
			continue
		}
		c.Layers[li] = append(c.Layers[li], genEntry(t))
	}
	return finishImgCase(col, c, keepPhys)
}

// finishImgCase suppresses the input class of the known finding c06.unpack_dotdot_name by
// construction, handles the input class of c06.unpack_link_physical_escape (keepPhys: the case stays
// as it is and is marked KnownPhys; otherwise its links are rewritten so that it leaves the class)
// and asserts the climb bound.
func finishImgCase(col *ev.Collector, c imgCase, keepPhys bool) imgCase {
	if strings.HasPrefix(c.Loader, "unpack") {
		dot := col.IsKnown(classUnpackDotDotName)
		phys := col.IsKnown(classUnpackLinkPhysical)
		for li := range c.Layers {
			for ei := range c.Layers[li] {
				e := &c.Layers[li][ei]
				if dot && c.harmfulDotDot(*e) {
					col.Excluded(classUnpackDotDotName)
					e.Name = c.stripDotDot(e.Name)
				}
			}
		}
		if phys {
			for li := range c.Layers {
				for ei := range c.Layers[li] {
					e := &c.Layers[li][ei]
					if (e.Type == "sym" || e.Type == "hard") && linkThroughLink(c, e) {
						if keepPhys {
							c.KnownPhys = true
							continue
						}
						col.Excluded(classUnpackLinkPhysical)
						e.Link = "a"
					}
				}
			}
		}
	}
	if b := climbBound(c); b >= unjailedFn {
		panic(fmt.Sprintf("harness: generated case exceeds the climb bound: %d", b))
	}
	return c
}

// virt substitutes the placeholders the way they read inside the jail (sandbox root = "/"); the
// class predicates work on these sandbox-independent spellings.
func (c imgCase) virt(s string) string {
	s = strings.ReplaceAll(s, "${T}", c.vT())
	s = strings.ReplaceAll(s, "${B}", vB)
	return strings.ReplaceAll(s, "${R}", "")
}

// cleanRel is the name as the loaders see it after path.Clean.
func (c imgCase) cleanRel(name string) string { return path.Clean(c.virt(name)) }

// dotDotName: the cleaned entry name climbs out of the directory it is joined to.
func (c imgCase) dotDotName(name string) bool {
	cl := c.cleanRel(name)
	return cl == ".." || strings.HasPrefix(cl, "../")
}

// existingOutsideBase are the directories outside the target that exist in every sandbox, in the
// name space of a virtual sandbox root (see buildLayout); existingOutside adds the empty ancestors
// of the target and of TMPDIR of the case.
var existingOutsideBase = []string{"/", "/w", "/w/1", "/w/1/2", "/w/1/2/3", "/w/1/2/3/4",
	"/w/1/2/3/4/5", "/w/1/2/3/4/5/outside", "/w/1/2/3/4/5/tmp", "/w/1/2/3/4/5/in"}

func (c imgCase) existingOutside() map[string]bool {
	m := map[string]bool{}
	for _, d := range existingOutsideBase {
		m[d] = true
	}
	for d := path.Dir(c.vT()); d != vB; d = path.Dir(d) {
		m[d] = true
	}
	for d := c.vTmp(); d != vB; d = path.Dir(d) {
		m[d] = true
	}
	return m
}

// harmfulDotDot is the predicate of classUnpackDotDotName.
func (c imgCase) harmfulDotDot(e tarEntry) bool {
	if !c.dotDotName(e.Name) {
		return false
	}
	switch e.Type {
	case "dir":
		return false // directory entries are ignored by unpack
	case "sym", "hard":
		return true
	}
	full := path.Join(c.vT(), c.cleanRel(e.Name))
	return !c.existingOutside()[path.Dir(full)]
}

func (c imgCase) stripDotDot(name string) string {
	return stripDotDotClean(c.cleanRel(name))
}

func stripDotDotClean(c string) string {
	for c == ".." || strings.HasPrefix(c, "../") {
		c = strings.TrimPrefix(strings.TrimPrefix(c, ".."), "/")
	}
	if c == "" {
		c = "a"
	}
	return c
}

// linkNames returns the cleaned names of all link entries of the case.
func linkNames(c imgCase) map[string]bool {
	m := map[string]bool{}
	for _, l := range c.Layers {
		for _, e := range l {
			if e.Type == "sym" || e.Type == "hard" {
				m[strings.TrimPrefix(c.cleanRel(e.Name), "/")] = true
			}
		}
	}
	return m
}

// linkThroughLink: the link's target, taken relative to the link's directory (or to the image
// root when absolute), has a proper prefix that is the name of a link entry of the case and
// continues with a ".." after it, or the link's own directory passes through a link entry.
func linkThroughLink(c imgCase, e *tarEntry) bool {
	names := linkNames(c)
	self := strings.TrimPrefix(c.cleanRel(e.Name), "/")
	target := c.virt(e.Link)
	var segs []string
	if strings.HasPrefix(target, "/") {
		segs = strings.Split(target, "/")
	} else {
		segs = append(strings.Split(path.Dir(self), "/"), strings.Split(target, "/")...)
	}
	// the link's own directory passes through a link
	d := path.Dir(self)
	for d != "." && d != "/" && d != "" {
		if names[d] {
			return true
		}
		d = path.Dir(d)
	}
	var cur []string
	seenLink := false
	for _, s := range segs {
		switch s {
		case "", ".":
			continue
		case "..":
			if seenLink {
				return true
			}
			if len(cur) > 0 {
				cur = cur[:len(cur)-1]
			}
			continue
		}
		cur = append(cur, s)
		if p := strings.Join(cur, "/"); names[p] && p != self {
			seenLink = true
		}
	}
	return false
}

// ---------------------------------------------------------------------------------------
// Non-triviality: lexical escapes and write-through sequences.

func escapes(p string) bool {
	if strings.HasPrefix(p, "${T}") {
		c := path.Clean("T/" + strings.TrimPrefix(p, "${T}"))
		return c != "T" && !strings.HasPrefix(c, "T/")
	}
	if strings.HasPrefix(p, "${B}") {
		return true
	}
	if strings.HasPrefix(p, "${R}") {
		// image-absolute: the loaders are expected to re-root it; it escapes when it climbs
		c := path.Clean("T/" + strings.TrimPrefix(p, "${R}"))
		return c != "T" && !strings.HasPrefix(c, "T/")
	}
	c := path.Clean(p)
	return c == ".." || strings.HasPrefix(c, "../")
}

func nonTrivial(c imgCase) (bool, []string) {
	var classes []string
	nt := false
	names := linkNames(c)
	for _, l := range c.Layers {
		for _, e := range l {
			if escapes(e.Name) {
				nt = true
				classes = append(classes, "escaping_name:"+e.Type)
			}
			if e.Type == "sym" || e.Type == "hard" {
				t := e.Link
				if !strings.HasPrefix(t, "${") && !strings.HasPrefix(t, "/") {
					t = path.Join(path.Dir(path.Clean(e.Name)), t)
				}
				if escapes(t) {
					nt = true
					classes = append(classes, "escaping_target:"+e.Type)
				}
			}
			d := path.Dir(strings.TrimPrefix(path.Clean(e.Name), "/"))
			for d != "." && d != "/" && d != "" {
				if names[d] {
					nt = true
					classes = append(classes, "write_through_link")
					break
				}
				d = path.Dir(d)
			}
			if strings.Contains(e.Name, "target-evil") || strings.Contains(e.Link, "target-evil") {
				classes = append(classes, "prefix_sibling")
			}
			if len(e.Name) > 300 {
				classes = append(classes, "long_component")
			}
		}
	}
	// the caller-chosen directories
	unpackLoader := strings.HasPrefix(c.Loader, "unpack")
	if unpackLoader {
		sp, _ := c.Dir.spell(c.vT())
		sc := spellingClasses("dir_spelling:", sp)
		classes = append(classes, sc...)
		classes = append(classes, fmt.Sprintf("dir_empty_ancestors:%d", c.Dir.Holders))
		if sp != c.vT() {
			nt = true
			// which entry point is handed which kind of spelling
			for _, k := range sc {
				if k == "dir_spelling:non_cleaned" || k == "dir_spelling:relative" {
					classes = append(classes, k+":"+c.Loader)
				}
			}
			if c.Dir.Holders > 0 {
				classes = append(classes, "dir_not_cleaned_abs_below_empty_ancestors")
			}
		}
	}
	if c.Loader != "unpack_tarball" {
		sp, _ := c.TmpDir.spell(c.vTmp())
		classes = append(classes, spellingClasses("tmpdir_spelling:", sp)...)
		classes = append(classes, fmt.Sprintf("tmpdir_empty_ancestors:%d", c.TmpDir.Holders))
		if sp != c.vTmp() {
			nt = true
			if c.TmpDir.Holders > 0 {
				classes = append(classes, "tmpdir_not_cleaned_below_empty_ancestors")
			}
		}
	}
	if c.Shape != "" {
		classes = append(classes, "shape:"+c.Shape)
		if (unpackLoader && c.Dir.Holders > 0) || (c.Loader != "unpack_tarball" && c.TmpDir.Holders > 0) {
			nt = true
			classes = append(classes, "shape:"+c.Shape+"_below_empty_ancestors")
		}
	}
	if c.Requirer != "" {
		classes = append(classes, "requirer:"+c.Requirer)
	}
	return nt, append(append(classes, sharedTargetClasses(c)...), selfRefClasses(c)...)
}

func (c imgCase) hasLinkEntry() bool {
	for _, l := range c.Layers {
		for _, e := range l {
			if e.Type == "sym" || e.Type == "hard" {
				return true
			}
		}
	}
	return false
}

// existsOutsideTarget: p (in the name space of a virtual sandbox root) is something that exists in
// every sandbox and is not the target directory or inside it.
func (c imgCase) existsOutsideTarget(p string) bool {
	existingOutside := c.existingOutside()
	if existingOutside[p] || p == "/w/1/2/3/4/5/target-evil" {
		return true
	}
	if path.Base(p) == "canary.txt" { // one at the sandbox root and in each directory of nest
		d := path.Dir(p)
		return d == "/" || (existingOutside[d] && strings.HasPrefix("/w/1/2/3/4/5", d))
	}
	return p == "/w/1/2/3/4/5/outside/secret.txt" || p == "/w/1/2/3/4/5/target-evil/keep"
}

// sharedTargetClasses labels the pairs of link entries that carry a byte-identical relative target
// containing ".." at different depths of the tree. Positions are those of the stream the loader
// reads (streamLayers). Every label is counted once per case.
func sharedTargetClasses(c imgCase) []string {
	type lk struct {
		pos, layer, depth int
		name, typ, link   string
		lexOut, exists    bool
	}
	var links []lk
	var names []string // cleaned plain names of all entries, in stream order
	pos := 0
	for _, li := range streamLayers(c.Loader, len(c.Layers)) {
		for _, e := range c.Layers[li] {
			pos++
			if strings.Contains(e.Name, "${") || strings.HasPrefix(e.Name, "/") {
				names = append(names, "")
				continue
			}
			cn := path.Clean(e.Name)
			names = append(names, cn)
			if e.Type != "sym" && e.Type != "hard" {
				continue
			}
			if strings.Contains(e.Link, "${") || strings.HasPrefix(e.Link, "/") || cn == ".." || strings.HasPrefix(cn, "../") || cn == "." {
				continue
			}
			hasDD := false
			for _, sg := range strings.Split(e.Link, "/") {
				hasDD = hasDD || sg == ".."
			}
			if !hasDD {
				continue
			}
			res := path.Join(path.Dir(cn), e.Link)
			l := lk{pos: pos, layer: li, depth: strings.Count(cn, "/") + 1, name: cn, typ: e.Type, link: e.Link}
			l.lexOut = res == ".." || strings.HasPrefix(res, "../")
			l.exists = l.lexOut && c.existsOutsideTarget(path.Join(c.vT(), res))
			links = append(links, l)
		}
	}
	set := map[string]bool{}
	const pfx = "shared_link_target_diff_depth"
	for i := range links {
		for j := i + 1; j < len(links); j++ {
			a, b := links[i], links[j] // a precedes b in the stream
			if a.link != b.link || a.depth == b.depth || a.name == b.name {
				continue
			}
			set[pfx] = true
			set["shared_link_target:"+a.link] = true
			if a.depth > b.depth {
				set[pfx+"_deep_first"] = true
			} else {
				set[pfx+"_shallow_first"] = true
			}
			if a.typ == "hard" || b.typ == "hard" {
				set[pfx+"_hardlink"] = true
			}
			if a.typ == "sym" || b.typ == "sym" {
				set[pfx+"_symlink"] = true
			}
			if a.layer != b.layer {
				set[pfx+"_cross_layer"] = true
			} else {
				set[pfx+"_same_layer"] = true
			}
			var esc *lk
			switch {
			case !a.lexOut && b.lexOut:
				esc = &b
				set[pfx+"_harmless_then_escaping"] = true
				if b.typ == "hard" {
					set[pfx+"_harmless_then_escaping_hardlink"] = true
				}
				if a.layer != b.layer {
					set[pfx+"_harmless_then_escaping_cross_layer"] = true
				}
				if b.exists {
					set[pfx+"_harmless_then_escaping_to_existing"] = true
				}
			case a.lexOut && !b.lexOut:
				esc = &a
				set[pfx+"_escaping_then_harmless"] = true
			case a.lexOut && b.lexOut:
				set[pfx+"_both_escaping"] = true
			default:
				set[pfx+"_both_harmless"] = true
			}
			if esc != nil {
				for k, n := range names {
					if strings.HasPrefix(n, esc.name+"/") {
						set[pfx+"_written_through_escaping"] = true
						if k+1 > esc.pos {
							set[pfx+"_written_through_escaping_later"] = true
						}
					}
				}
			}
		}
	}
	for _, l := range links {
		if set["shared_link_target:"+l.link] {
			set[fmt.Sprintf("shared_link_depth:%d", l.depth)] = true
		}
	}
	out := make([]string, 0, len(set))
	for k := range set {
		out = append(out, k)
	}
	sort.Strings(out)
	return out
}

// climbBound is an upper bound of the number of directory levels above the target that any path
// operation of a loader can reach with the entries of c, however it follows the links it has
// created itself: a link is created at most (".." segments of its name) above the highest level
// reachable before it and reaches at most (".." segments of its target) above that; the entry
// finally written adds the ".." segments of its own name. The generator stays at or below
// 7*12 + 4 = 88 without a shared-target group (an iteration adds at most one link with 4+4 or a
// link with 0+4 and a link written through it with 4+4) and 5*12 + 4*3 + 4 = 76 with one; a case
// with the self-referential-link family has at most four other entries (4*8, none of them a
// write-through pair) and the family adds at most 27: 32 + 27 + 4 = 63 (self-referential links add
// nothing of their own: a hop through "t -> ." ends where it started, and every ".." that follows
// is counted with the link that carries it); the
// shapes of which nothing is left (genEmptyShape) have at most five entries with at most 3+3, i.e.
// 5*6 + 3 = 33. The target lies at least unjailedFn + len(nest) + 1 = 103 levels below the sandbox
// directory (its empty ancestors add to that); the spelling of the directory argument never
// contains "..", and a relative spelling is relative to an ancestor of the target.
func climbBound(c imgCase) int {
	dd := func(s string) int {
		n := 0
		for _, sg := range strings.Split(c.virt(s), "/") {
			if sg == ".." {
				n++
			}
		}
		return n
	}
	sum, maxName := 0, 0
	for _, l := range c.Layers {
		for _, e := range l {
			if n := dd(e.Name); n > maxName {
				maxName = n
			}
			if e.Type == "sym" || e.Type == "hard" {
				sum += dd(e.Name) + dd(e.Link)
			}
		}
	}
	return sum + maxName
}

// ---------------------------------------------------------------------------------------
// Property.

// sandboxBase: the per-case sandboxes are created on tmpfs when there is one (directory
// operations on the scratch disk cost ~0.5 ms each here); every case removes its own sandbox.
func sandboxBase() string {
	if os.Getenv("C06_ON_DISK") == "" {
		if st, err := os.Stat("/dev/shm"); err == nil && st.IsDir() {
			return "/dev/shm"
		}
	}
	if base := os.Getenv("VERIF_SCRATCH"); base != "" {
		return base
	}
	return os.TempDir()
}

var jailActive = -1 // -1 unknown, 0 no, 1 yes

func propImage(c imgCase) (o ev.Outcome, err error) {
	col := ev.Get("C06")
	S, err := os.MkdirTemp(sandboxBase(), "c06i-")
	if err != nil {
		return o, fmt.Errorf("harness: %w", err)
	}
	defer os.RemoveAll(S)
	if S, err = filepath.EvalSymlinks(S); err != nil {
		return o, fmt.Errorf("harness: %w", err)
	}
	wd, err := os.Getwd()
	if err != nil {
		return o, fmt.Errorf("harness: %w", err)
	}
	oldtmp, hadtmp := os.LookupEnv("TMPDIR")
	R := S
	jailed := enterJail(S)
	if jailed {
		R = "/"
		if jailActive != 1 {
			jailActive = 1
			col.SetExtra("jail_active", true)
		}
		defer func() {
			if lerr := leaveJail(wd); lerr != nil {
				panic("harness: cannot leave the jail: " + lerr.Error())
			}
		}()
	} else {
		if jailActive != 0 {
			jailActive = 0
			col.SetExtra("jail_active", false)
			col.Note("chroot not available: image cases run unjailed, %d directories below the sandbox root", unjailedFn+len(nest))
		}
		if b := climbBound(c); b >= unjailedFn {
			return o, fmt.Errorf("harness: refusing to run a case unjailed whose links could climb %d levels (sandbox depth %d)", b, unjailedFn+len(nest))
		}
		for i := 0; i < unjailedFn; i++ {
			R = filepath.Join(R, "n")
		}
		if err := os.MkdirAll(R, 0o755); err != nil {
			return o, fmt.Errorf("harness: %w", err)
		}
	}
	defer func() {
		if hadtmp {
			os.Setenv("TMPDIR", oldtmp)
		} else {
			os.Unsetenv("TMPDIR")
		}
	}()
	l, err := buildLayout(R, c)
	if err != nil {
		return o, fmt.Errorf("harness: layout: %w", err)
	}
	nt, classes := nonTrivial(c)
	o = ev.Outcome{NonTrivial: nt, Classes: append(classes, "loader:"+c.Loader)}
	// the spellings of the caller-chosen directories
	unpackLoader := strings.HasPrefix(c.Loader, "unpack")
	dirArg, cwd := c.Dir.spell(l.T)
	tmpArg, _ := c.TmpDir.spell(l.Tmp)
	if !unpackLoader {
		dirArg, cwd = "", ""
	}
	if c.Loader == "unpack_tarball" {
		tmpArg = l.Tmp // not used by this loader
	}

	// inputs
	var img v1.Image
	tarPath := filepath.Join(l.In, "image.tar")
	switch c.Loader {
	case "v1image", "unpack":
		img, err = buildImage(l, c)
		if err != nil {
			return o, fmt.Errorf("harness: image: %w", err)
		}
	case "tarball":
		img, err = buildImage(l, c)
		if err != nil {
			return o, fmt.Errorf("harness: image: %w", err)
		}
		ref, _ := name.NewTag("verif/c06:latest")
		os.Setenv("TMPDIR", l.In) // anything the writer needs does not count as the loader's
		if err := tarball.WriteToFile(tarPath, ref, img); err != nil {
			return o, fmt.Errorf("harness: image tarball: %w", err)
		}
	case "unpack_tarball":
		var all []tarEntry
		for _, es := range c.Layers {
			all = append(all, es...)
		}
		if err := os.WriteFile(tarPath, tarBytes(l, all), 0o644); err != nil {
			return o, fmt.Errorf("harness: %w", err)
		}
	default:
		return o, fmt.Errorf("harness: unknown loader %q", c.Loader)
	}
	os.Setenv("TMPDIR", tmpArg)

	rel := func(p string) string {
		r, _ := filepath.Rel(R, p)
		return filepath.ToSlash(r)
	}
	before, err := sandbox.Take(R, nil)
	if err != nil {
		return o, fmt.Errorf("harness: %w", err)
	}
	var loadErr error
	var panicked string
	call := func(f func() error) {
		defer func() {
			if p := recover(); p != nil {
				panicked = fmt.Sprintf("%v\n%s", p, ev.TrimStack(debug.Stack()))
			}
		}()
		loadErr = f()
	}
	// a relative directory argument is relative to the working directory of the call
	inCwd := func(f func()) error {
		if cwd == "" {
			f()
			return nil
		}
		back := wd
		if jailed {
			back = "/"
		}
		if err := os.Chdir(cwd); err != nil {
			return fmt.Errorf("harness: %w", err)
		}
		f()
		if err := os.Chdir(back); err != nil {
			panic("harness: cannot return to the working directory: " + err.Error())
		}
		return nil
	}
	var requirer require.FileRequirer = &require.FileRequirerAll{}
	switch c.Requirer {
	case "none":
		requirer = &require.FileRequirerNone{}
	case "link_names":
		var names []string
		for n := range linkNames(c) {
			names = append(names, n, "/"+n)
		}
		sort.Strings(names)
		requirer = require.NewFileRequirerPaths(names)
	}

	switch c.Loader {
	case "unpack", "unpack_tarball":
		cfg := unpack.DefaultUnpackerConfig()
		cfg.MaxPass = c.MaxPass
		cfg.Requirer = requirer
		if c.SymRes == "ignore" {
			cfg.SymlinkResolution = unpack.SymlinkIgnore
		}
		if c.SymErr == "return" {
			cfg.SymlinkErrStrategy = unpack.SymlinkErrReturn
		}
		u, err := unpack.NewUnpacker(cfg)
		if err != nil {
			return o, fmt.Errorf("harness: unpacker: %w", err)
		}
		if err := inCwd(func() {
			if c.Loader == "unpack" {
				call(func() error { return u.UnpackSquashed(dirArg, img) })
			} else {
				call(func() error { return u.UnpackSquashedFromTarball(dirArg, tarPath) })
			}
		}); err != nil {
			return o, err
		}
		if panicked != "" {
			o.Classes = append(o.Classes, "loader_panicked:"+c.Loader)
		} else if loadErr != nil {
			o.Classes = append(o.Classes, "loader_error:"+c.Loader)
			if os.Getenv("C06_SHOWERR") != "" {
				fmt.Printf("LOADERR %s: %.200v\n", c.Loader, loadErr)
			}
		} else {
			o.Classes = append(o.Classes, "loader_ok:"+c.Loader)
		}
		after, err := sandbox.Take(R, nil)
		if err != nil {
			return o, fmt.Errorf("harness: %w", err)
		}
		trel := rel(l.T)
		// what became of the target: classes for the evidence, not part of the oracle
		left := "target_left_nonempty"
		if _, ok := after[trel]; !ok {
			left = "target_removed"
		} else if len(after.Children(trel)) == 0 {
			left = "target_left_empty"
		}
		o.Classes = append(o.Classes, left)
		if left == "target_left_empty" {
			if c.hasLinkEntry() {
				o.Classes = append(o.Classes, "target_left_empty_after_link_entries")
				if dirArg != l.T {
					o.Classes = append(o.Classes, "target_left_empty_after_link_entries_dir_not_cleaned_abs")
					if c.Dir.Holders > 0 {
						o.Classes = append(o.Classes, "target_left_empty_after_link_entries_dir_not_cleaned_abs_below_empty_ancestors")
					}
				}
			}
		}
		var d []string
		discounted := map[string]bool{}
		for _, ch := range sandbox.Changes(before, after, func(p string) bool { return sandbox.Under(p, trel) }) {
			// a case of the known class c06.unpack_link_physical_escape: that finding explains
			// directories and symlinks created outside the target, and nothing else
			if c.KnownPhys && ch.Kind == "created" && (ch.After.Type == "dir" || ch.After.Type == "symlink") {
				discounted["known_effect_discounted:"+ch.After.Type+"_created_outside"] = true
				continue
			}
			d = append(d, ch.String())
		}
		if len(d) > 0 {
			designated := fmt.Sprintf("the caller's target %s, passed as %q", trel, dirArg)
			if c.KnownPhys {
				designated += "; directories and symlinks created outside it are not listed: known finding " + classUnpackLinkPhysical
			}
			return o, sideEffectErr(c, designated, d)
		}
		var esc []string
		if left != "target_removed" {
			esc, err = sandbox.EscapingSymlinks(l.T)
			if err != nil {
				return o, fmt.Errorf("harness: %w", err)
			}
		}
		if len(esc) > 0 && c.KnownPhys {
			discounted["known_effect_discounted:escaping_symlink_in_target"] = true
			esc = nil
		}
		if len(esc) > 0 {
			return o, fmt.Errorf("after %s a symlink left inside the target directory resolves to a location outside it:\n  %s", c.Loader, strings.Join(esc, "\n  "))
		}
		if c.KnownPhys {
			o.Classes = append(o.Classes, "known_class_case:link_physical_escape")
			if len(discounted) > 0 {
				col.Excluded(classUnpackLinkPhysical)
				o.Classes = append(o.Classes, "known_class_case:link_physical_escape_with_discounted_effect")
			}
			for k := range discounted {
				o.Classes = append(o.Classes, k)
			}
			o.Classes = append(o.Classes, refusedWriteClasses(c, l, after, rel)...)
		}
	case "v1image", "tarball":
		var im *image.Image
		cfg := image.DefaultConfig()
		cfg.Requirer = requirer
		if c.Loader == "v1image" {
			call(func() error { var e error; im, e = image.FromV1Image(img, cfg); return e })
		} else {
			call(func() error { var e error; im, e = image.FromTarball(tarPath, cfg); return e })
		}
		after, err := sandbox.Take(R, nil)
		if err != nil {
			return o, fmt.Errorf("harness: %w", err)
		}
		if panicked != "" || loadErr != nil || im == nil {
			if panicked != "" {
				o.Classes = append(o.Classes, "loader_panicked:"+c.Loader)
			} else {
				o.Classes = append(o.Classes, "loader_error:"+c.Loader)
				if os.Getenv("C06_SHOWERR") != "" {
					fmt.Printf("LOADERR %s: %.200v\n", c.Loader, loadErr)
				}
			}
			// a failed load has no designated directory left: everything must be as before
			if d := sandbox.Diff(before, after, nil); len(d) > 0 {
				return o, sideEffectErr(c, "none (the load failed)", d)
			}
			return o, nil
		}
		o.Classes = append(o.Classes, "loader_ok:"+c.Loader)
		xd := im.ExtractDir
		if !sandbox.Inside(filepath.Clean(xd), l.Tmp) || filepath.Clean(xd) == filepath.Clean(l.Tmp) {
			return o, fmt.Errorf("ExtractDir %q is not a directory beneath TMPDIR %q", xd, l.Tmp)
		}
		xrel := rel(xd)
		if d := sandbox.Diff(before, after, func(p string) bool { return sandbox.Under(p, xrel) }); len(d) > 0 {
			return o, sideEffectErr(c, "the image's ExtractDir "+xrel, d)
		}
		esc, err := sandbox.EscapingSymlinks(xd)
		if err != nil {
			return o, fmt.Errorf("harness: %w", err)
		}
		if len(esc) > 0 {
			return o, fmt.Errorf("after %s a symlink left inside ExtractDir resolves to a location outside it:\n  %s", c.Loader, strings.Join(esc, "\n  "))
		}
		var cerr error
		call(func() error { cerr = im.CleanUp(); return cerr })
		final, err := sandbox.Take(R, nil)
		if err != nil {
			return o, fmt.Errorf("harness: %w", err)
		}
		if d := sandbox.Diff(before, final, nil); len(d) > 0 {
			return o, fmt.Errorf("after CleanUp (error: %v) the sandbox differs from its state before the load (ExtractDir %s must be gone, TMPDIR empty):\n  %s", cerr, xrel, strings.Join(d, "\n  "))
		}
	}
	return o, nil
}

// refusedWriteClasses looks, after an unpack, at the regular entries of a case whose name passes
// below a link entry: where the name leads outside the target on disk (own resolver) and no file
// is there, the loader has refused to write a regular file through an escaping link. Evidence only.
func refusedWriteClasses(c imgCase, l layout, after sandbox.Snapshot, rel func(string) string) []string {
	set := map[string]bool{}
	names := linkNames(c)
	for _, es := range c.Layers {
		for _, e := range es {
			if e.Type != "reg" || strings.Contains(e.Name, "${") {
				continue
			}
			cn := strings.TrimPrefix(path.Clean(e.Name), "/")
			if cn == ".." || strings.HasPrefix(cn, "../") {
				continue
			}
			depth, lk := 0, ""
			for d, k := path.Dir(cn), 1; d != "." && d != "/" && d != ""; d, k = path.Dir(d), k+1 {
				if names[d] {
					depth, lk = k, d
				}
			}
			if lk == "" {
				continue
			}
			loc, ok := sandbox.Resolve(filepath.Join(l.T, cn))
			if !ok || sandbox.Inside(loc, l.T) {
				continue
			}
			what := "refused"
			if ent, ok := after[rel(loc)]; ok {
				what = "existing_" + ent.Type
			}
			set["regular_through_escaping_link_"+what] = true
			set[fmt.Sprintf("regular_through_escaping_link_%s:depth%d", what, depth)] = true
			set[fmt.Sprintf("regular_through_escaping_link_%s:depth%d:%s", what, depth, nameStyleOf(e.Name))] = true
		}
	}
	out := make([]string, 0, len(set))
	for k := range set {
		out = append(out, k)
	}
	sort.Strings(out)
	return out
}

// selfRefClasses labels the self-referential links of a case (structurally, so that replayed cases
// are labelled too): a self link is a link entry whose relative target, read lexically from the
// link's directory, is that directory or one above it inside the image, without passing through
// another link entry; a climb link is a link entry whose relative target passes through a link entry,
// continues with "..", and is lexically inside the image (what TargetOutsideRoot accepts). Every
// label is counted once per case.
func selfRefClasses(c imgCase) []string {
	set := map[string]bool{}
	names := linkNames(c)
	type lk struct {
		name string
		pos  int
	}
	var climbs []lk
	pos := 0
	var regs []struct {
		name, raw string
		pos       int
	}
	for _, li := range streamLayers(c.Loader, len(c.Layers)) {
		for _, e := range c.Layers[li] {
			pos++
			if strings.Contains(e.Name, "${") {
				continue
			}
			cn := strings.TrimPrefix(path.Clean(e.Name), "/")
			if cn == ".." || strings.HasPrefix(cn, "../") || cn == "." {
				continue
			}
			if e.Type == "reg" {
				regs = append(regs, struct {
					name, raw string
					pos       int
				}{cn, e.Name, pos})
				continue
			}
			if (e.Type != "sym" && e.Type != "hard") || strings.Contains(e.Link, "${") || strings.HasPrefix(e.Link, "/") || e.Link == "" {
				continue
			}
			dir := path.Dir(cn)
			res := path.Join(dir, e.Link)
			inside := res != ".." && !strings.HasPrefix(res, "../")
			// does the target pass through a link entry, and is there a ".." after that?
			var cur []string
			if dir != "." {
				cur = strings.Split(dir, "/")
			}
			through, climbsAfter, chain := false, false, false
			for _, sg := range strings.Split(e.Link, "/") {
				switch sg {
				case "", ".":
					continue
				case "..":
					if through {
						climbsAfter = true
					}
					if len(cur) > 0 {
						cur = cur[:len(cur)-1]
					}
					continue
				}
				cur = append(cur, sg)
				if p := strings.Join(cur, "/"); names[p] && p != cn {
					through = true
					for _, k := range climbs {
						chain = chain || k.name == p
					}
				}
			}
			switch {
			case !inside:
			case through && climbsAfter:
				set["selfref_climb_link"] = true
				set["selfref_climb_link:"+e.Type] = true
				set[fmt.Sprintf("selfref_climb_link:link_depth%d", strings.Count(cn, "/")+1)] = true
				set["selfref_climb_link:name_"+nameStyleOf(e.Name)] = true
				if chain {
					set["selfref_climb_link_through_earlier_climb_link"] = true
				}
				climbs = append(climbs, lk{cn, pos})
			case !through && (res == "." || dir == res || strings.HasPrefix(dir, res+"/")):
				set["selfref_self_link"] = true
				switch {
				case !strings.Contains(e.Link, ".."):
					set["selfref_self_link:dot"] = true
				case res == dir:
					set["selfref_self_link:x_dotdot"] = true
				default:
					set["selfref_self_link:to_ancestor"] = true
				}
			case through && (res == "." || dir == res || strings.HasPrefix(dir, res+"/")):
				set["selfref_self_link:alias"] = true
			}
		}
	}
	for _, r := range regs {
		for _, k := range climbs {
			if !strings.HasPrefix(r.name, k.name+"/") {
				continue
			}
			depth := strings.Count(strings.TrimPrefix(r.name, k.name+"/"), "/") + 1
			when := "later"
			if r.pos < k.pos {
				when = "earlier"
			}
			set["selfref_regular_below_climb_link"] = true
			set[fmt.Sprintf("selfref_regular_below_climb_link:depth%d", depth)] = true
			set[fmt.Sprintf("selfref_regular_below_climb_link:depth%d:%s", depth, nameStyleOf(r.raw))] = true
			set["selfref_regular_below_climb_link:"+when] = true
		}
	}
	out := make([]string, 0, len(set))
	for k := range set {
		out = append(out, k)
	}
	sort.Strings(out)
	return out
}

func sideEffectErr(c imgCase, designated string, d []string) error {
	if len(d) > 10 {
		d = append(d[:10], fmt.Sprintf("... and %d more", len(d)-10))
	}
	return fmt.Errorf("loader %s has side effects outside its designated directory (%s):\n  %s", c.Loader, designated, strings.Join(d, "\n  "))
}

var exploreSeen = map[string]int{}

// exploring wraps the property for triage runs (C06_EXPLORE=1): failures are printed once per
// signature and the campaign continues.
func exploring(c imgCase) (ev.Outcome, error) {
	o, err := propImage(c)
	if err != nil && os.Getenv("C06_EXPLORE") != "" && !strings.HasPrefix(err.Error(), "harness") {
		lines := strings.Split(err.Error(), "\n")
		sig := c.Loader + "|"
		for _, l := range lines[1:] {
			f := strings.Fields(l)
			if len(f) >= 3 {
				sig += f[0] + f[len(f)-1] + ","
			}
		}
		if len(lines) == 1 || strings.Contains(lines[0], "symlink left") {
			sig += lines[0][:40]
		}
		exploreSeen[sig]++
		if exploreSeen[sig] == 1 {
			cj, _ := json.Marshal(c)
			fmt.Printf("EXPLORE %s\n  %s\n  case: %s\n", sig, strings.Join(lines, "\n  "), cj)
		}
		return o, nil
	}
	return o, err
}

func TestC06_image(t *testing.T) {
	col := ev.Get("C06")
	if os.Getenv("C06_EXPLORE") != "" {
		ev.Check(t, col, ev.IntEnv("C06_IMAGE_CHECKS", 3000), genImgCase, exploring)
		for k, v := range exploreSeen {
			fmt.Printf("EXPLORE-COUNT %d %s\n", v, k)
		}
		return
	}
	ev.Check(t, col, ev.IntEnv("C06_IMAGE_CHECKS", ev.Scale(2500, 30000)), genImgCase, propImage)
}
