// Package layerfam holds C05: packages are attributed to the layer that introduced them.
package layerfam

import (
	"bufio"
	"context"
	"fmt"
	"path"
	"sort"
	"strings"
	"testing"

	"github.com/google/osv-scalibr/artifact/image/layerscanning/image"
	"github.com/google/osv-scalibr/artifact/image/require"
	"github.com/google/osv-scalibr/extractor"
	"github.com/google/osv-scalibr/extractor/filesystem"
	"github.com/google/osv-scalibr/inventory"
	"github.com/google/osv-scalibr/log"
	"github.com/google/osv-scalibr/plugin"
	"github.com/google/osv-scalibr/purl"
	"pgregory.net/rapid"

	scalibr "github.com/google/osv-scalibr"

	"verifharness/internal/ev"
	"verifharness/internal/overlay"
	"verifharness/internal/tarimg"
)

type quietLogger struct{}

func (quietLogger) Errorf(string, ...any) {}
func (quietLogger) Warnf(string, ...any)  {}
func (quietLogger) Infof(string, ...any)  {}
func (quietLogger) Debugf(string, ...any) {}
func (quietLogger) Error(...any)          {}
func (quietLogger) Warn(...any)           {}
func (quietLogger) Info(...any)           {}
func (quietLogger) Debug(...any)          {}

func init() { log.SetLogger(quietLogger{}) }

// listExtractor parses package-list files: one "name version" per line.
type listExtractor struct {
	name     string
	suffix   string // required file-name suffix
	purlType string
	nilPurl  bool // packages named "nopurl*" have no purl
}

func (e *listExtractor) Name() string                        { return e.name }
func (e *listExtractor) Version() int                        { return 1 }
func (e *listExtractor) Requirements() *plugin.Capabilities  { return &plugin.Capabilities{} }
func (e *listExtractor) Ecosystem(*extractor.Package) string { return "" }
func (e *listExtractor) ToPURL(p *extractor.Package) *purl.PackageURL {
	if e.nilPurl && strings.HasPrefix(p.Name, "nopurl") {
		return nil
	}
	return &purl.PackageURL{Type: e.purlType, Name: p.Name, Version: p.Version}
}
func (e *listExtractor) FileRequired(api filesystem.FileAPI) bool {
	return strings.HasSuffix(api.Path(), e.suffix)
}
func (e *listExtractor) Extract(ctx context.Context, in *filesystem.ScanInput) (inventory.Inventory, error) {
	var inv inventory.Inventory
	sc := bufio.NewScanner(in.Reader)
	for sc.Scan() {
		f := strings.Fields(sc.Text())
		if len(f) != 2 {
			continue
		}
		inv.Packages = append(inv.Packages, &extractor.Package{Name: f[0], Version: f[1], Locations: []string{in.Path}})
	}
	return inv, sc.Err()
}

// fileAction is what one layer does to one package-list file.
type fileAction struct {
	Kind string   `json:"kind"`           // write | delete | delete_dir
	File int      `json:"file"`           // index into c05Case.Files
	Pkgs []string `json:"pkgs,omitempty"` // "name version" lines for write
}

type c05Layer struct {
	Actions []fileAction `json:"actions"`
	// Noise adds an unrelated file to the layer (so that no tar-backed layer is empty).
	Noise string `json:"noise"`
	// EmptyBefore inserts that many history-only (empty) layers before this layer.
	EmptyBefore int `json:"empty_before,omitempty"`
}

type c05Case struct {
	Files        []string   `json:"files"`
	Layers       []c05Layer `json:"layers"`
	EmptyAfter   int        `json:"empty_after,omitempty"`
	TwoExtractor bool       `json:"two_extractors,omitempty"` // a second extractor also requires files[0]
	NilPurl      bool       `json:"nil_purl,omitempty"`
	// Requirer: which files the image loader is told to keep: 0 all of them (the default), 1 the
	// package lists named by relative path, 2 by slash-rooted path, 3 by both.
	Requirer int `json:"requirer,omitempty"`
}

// classes of C04 findings that change the views this check relies on; while they are
// listed as known for C04 the generator stays clear of them (one root cause, one finding).
func c04Known() map[string]bool {
	m := map[string]bool{}
	for _, k := range ev.LoadKnown("C04") {
		m[k.Class] = true
	}
	return m
}

const (
	c05TwoExtractors = "c05.cache_ignores_extractor"
	c05NilPurl       = "c05.nil_purl"
)

var pkgPool = []string{"alpha 1.0", "alpha 2.0", "beta 1.0", "gamma 0.1", "delta 3.1", "nopurl 1.0"}

func genC05(t *rapid.T) c05Case {
	col := ev.Get("C05")
	k04 := c04Known()
	c := c05Case{}
	allFiles := []string{"d1/a.list", "d1/b.list", "d2/c.list"}
	nf := rapid.IntRange(1, 3).Draw(t, "n_files")
	c.Files = allFiles[:nf]
	nl := rapid.IntRange(1, 6).Draw(t, "n_layers")
	deadDir := map[string]bool{} // directories that were whited out earlier
	exists := map[int]bool{}
	for li := 0; li < nl; li++ {
		// an unrelated file: unique per layer, shared by several layers (so that two layers can
		// be byte-identical, e.g. "re-create the same file": same diff ID, different command)
		// or absent
		l := c05Layer{Noise: fmt.Sprintf("noise/n%d.txt", li)}
		switch rapid.IntRange(0, 3).Draw(t, "noise_kind") {
		case 0:
			l.Noise = "noise/shared.txt"
		case 1:
			l.Noise = ""
		}
		if rapid.IntRange(0, 3).Draw(t, "empty_before") == 0 {
			l.EmptyBefore = rapid.IntRange(1, 2).Draw(t, "n_empty")
		}
		dirWhited := map[string]bool{}
		written := map[string]bool{}
		for fi, f := range c.Files {
			dir := path.Dir(f)
			choice := rapid.SampledFrom([]string{"ignore", "ignore", "write", "write", "write", "delete", "delete_dir"}).Draw(t, "action")
			switch choice {
			case "write":
				if dirWhited[dir] && k04["c04.whiteout_and_recreate_same_layer"] {
					col.Excluded("c04.whiteout_and_recreate_same_layer")
					continue
				}
				if deadDir[dir] && k04["c04.removed_dir_recreated_later"] {
					col.Excluded("c04.removed_dir_recreated_later")
					continue
				}
				n := rapid.IntRange(0, 3).Draw(t, "n_pkgs")
				seen := map[string]bool{}
				var pk []string
				for i := 0; i < n; i++ {
					p := rapid.SampledFrom(pkgPool).Draw(t, "pkg")
					if !seen[p] {
						seen[p] = true
						pk = append(pk, p)
					}
				}
				l.Actions = append(l.Actions, fileAction{Kind: "write", File: fi, Pkgs: pk})
				written[dir] = true
				exists[fi] = true
			case "delete":
				if !exists[fi] {
					continue
				}
				if dirWhited[dir] && k04["c04.whiteout_and_recreate_same_layer"] {
					// a whiteout marker inside a directory that the same layer whites out
					col.Excluded("c04.whiteout_and_recreate_same_layer")
					continue
				}
				written[dir] = true // the marker file is an entry beneath the directory
				l.Actions = append(l.Actions, fileAction{Kind: "delete", File: fi})
				exists[fi] = false
			case "delete_dir":
				if written[dir] && k04["c04.whiteout_and_recreate_same_layer"] {
					col.Excluded("c04.whiteout_and_recreate_same_layer")
					continue
				}
				if dirWhited[dir] {
					continue
				}
				any := false
				for fj, g := range c.Files {
					if path.Dir(g) == dir && exists[fj] {
						any = true
					}
				}
				if !any {
					continue
				}
				l.Actions = append(l.Actions, fileAction{Kind: "delete_dir", File: fi})
				dirWhited[dir] = true
				deadDir[dir] = true
				for fj, g := range c.Files {
					if path.Dir(g) == dir {
						exists[fj] = false
					}
				}
			}
		}
		c.Layers = append(c.Layers, l)
	}
	if rapid.IntRange(0, 3).Draw(t, "empty_after") == 0 {
		c.EmptyAfter = rapid.IntRange(1, 2).Draw(t, "n_empty_after")
	}
	c.TwoExtractor = rapid.IntRange(0, 7).Draw(t, "two_extractors") == 0
	if c.TwoExtractor && col.IsKnown(c05TwoExtractors) {
		col.Excluded(c05TwoExtractors)
		c.TwoExtractor = false
	}
	c.NilPurl = rapid.IntRange(0, 7).Draw(t, "nil_purl") == 0
	if c.NilPurl && col.IsKnown(c05NilPurl) {
		col.Excluded(c05NilPurl)
		c.NilPurl = false
	}
	c.Requirer = rapid.SampledFrom([]int{0, 0, 0, 1, 2, 3}).Draw(t, "requirer")
	return c
}

// describe turns the case into an image description.
func (c c05Case) image() tarimg.Image {
	img := tarimg.Image{}
	for li, l := range c.Layers {
		var es []tarimg.Entry
		dirs := map[string]bool{}
		for _, a := range l.Actions {
			f := c.Files[a.File]
			switch a.Kind {
			case "write":
				if d := path.Dir(f); !dirs[d] {
					dirs[d] = true
					es = append(es, tarimg.D(d, 0o755))
				}
				body := ""
				for _, p := range a.Pkgs {
					body += p + "\n"
				}
				es = append(es, tarimg.F(f, body, 0o644))
			case "delete":
				es = append(es, tarimg.W(f))
			case "delete_dir":
				es = append(es, tarimg.W(path.Dir(f)))
			}
		}
		if l.Noise != "" {
			es = append(es, tarimg.D("noise", 0o755), tarimg.F(l.Noise, "x", 0o644))
		}
		for i := 0; i < l.EmptyBefore; i++ {
			img.History = append(img.History, tarimg.History{CreatedBy: fmt.Sprintf("ENV e%d_%d", li, i), Empty: true})
		}
		img.History = append(img.History, tarimg.History{CreatedBy: fmt.Sprintf("RUN layer %d", li)})
		img.Layers = append(img.Layers, tarimg.Layer{Entries: es})
	}
	for i := 0; i < c.EmptyAfter; i++ {
		img.History = append(img.History, tarimg.History{CreatedBy: fmt.Sprintf("CMD after %d", i), Empty: true})
	}
	return img
}

type pkgID struct{ purl, loc string }

func propC05(c c05Case) (ev.Outcome, error) {
	var o ev.Outcome
	if len(c.Layers) == 0 || len(c.Files) == 0 {
		return o, nil
	}
	desc := c.image()
	v1img, err := desc.Build()
	if err != nil {
		return o, nil
	}
	icfg := image.DefaultConfig()
	if c.Requirer != 0 {
		var want []string
		for _, f := range c.Files {
			if c.Requirer&1 != 0 {
				want = append(want, f)
			}
			if c.Requirer&2 != 0 {
				want = append(want, "/"+f)
			}
		}
		icfg.Requirer = require.NewFileRequirerPaths(want)
		o.Classes = append(o.Classes, fmt.Sprintf("requirer_paths_%d", c.Requirer))
	}
	img, err := image.FromV1Image(v1img, icfg)
	if err != nil {
		return o, fmt.Errorf("FromV1Image failed on a well-formed image: %v", err)
	}
	defer img.CleanUp()
	chains, err := img.ChainLayers()
	if err != nil {
		return o, fmt.Errorf("ChainLayers: %v", err)
	}
	plan := desc.ChainPlan()
	views := overlay.ChainViews(desc)
	if len(chains) != len(plan) {
		return o, fmt.Errorf("image with %d history entries (%d layers) has %d chain layers, expected %d", len(desc.History), len(desc.Layers), len(chains), len(plan))
	}
	ex1 := &listExtractor{name: "harness/list", suffix: ".list", purlType: purl.TypeGeneric, nilPurl: c.NilPurl}
	exts := []filesystem.Extractor{ex1}
	if c.TwoExtractor {
		exts = append(exts, &listExtractor{name: "harness/list2", suffix: "a.list", purlType: purl.TypeDebian})
	}
	cfg := &scalibr.ScanConfig{FilesystemExtractors: exts, Capabilities: &plugin.Capabilities{OS: plugin.OSLinux, Network: plugin.NetworkOffline}}
	res, err := scalibr.New().ScanContainer(context.Background(), img, cfg)
	if err != nil {
		return o, fmt.Errorf("ScanContainer: %v", err)
	}
	if res.Status == nil || res.Status.Status != plugin.ScanStatusSucceeded {
		return o, fmt.Errorf("container scan failed: %v", res.Status)
	}
	// model: presence of (purl, location) per chain index
	parse := func(v overlay.View, loc string, e *listExtractor) map[string]bool {
		out := map[string]bool{}
		n, ok := v["/"+loc]
		if !ok || n.Kind != overlay.File {
			return out
		}
		for _, line := range strings.Split(n.Content, "\n") {
			f := strings.Fields(line)
			if len(f) != 2 {
				continue
			}
			p := &extractor.Package{Name: f[0], Version: f[1]}
			if u := e.ToPURL(p); u != nil {
				out[u.String()] = true
			} else {
				out["<nil>"+f[0]+"@"+f[1]] = true
			}
		}
		return out
	}
	last := len(views) - 1
	diffIDs := make([]string, len(desc.Layers))
	for i, l := range desc.Layers {
		vl, err := l.V1()
		if err != nil {
			return o, nil
		}
		h, _ := vl.DiffID()
		diffIDs[i] = h.Hex
	}
	middle := false
	readded := false
	nPkgs := 0
	var got []string
	for _, p := range res.Inventory.Packages {
		e, ok := p.Extractor.(*listExtractor)
		if !ok || len(p.Locations) == 0 {
			continue
		}
		nPkgs++
		loc := p.Locations[0]
		key := "<nil>" + p.Name + "@" + p.Version
		if u := e.ToPURL(p); u != nil {
			key = u.String()
		}
		if !parse(views[last], loc, e)[key] {
			return o, fmt.Errorf("package %s at %s is reported but the final view's file does not list it", key, loc)
		}
		origin := last
		gap := false
		for j := last - 1; j >= 0; j-- {
			if !parse(views[j], loc, e)[key] {
				break
			}
			origin = j
		}
		for j := origin - 1; j >= 0; j-- {
			if parse(views[j], loc, e)[key] {
				gap = true
			}
		}
		// the origin cannot be a history-only layer: an empty layer never changes a view
		want := extractor.LayerDetails{Index: origin, Command: plan[origin].CreatedBy}
		if plan[origin].Layer >= 0 {
			want.DiffID = diffIDs[plan[origin].Layer]
		}
		if e.ToPURL(p) == nil {
			// "same package" is defined through the package URL: attribution of a package
			// without one is not pinned by the property (the scan must merely not crash).
			o.Classes = append(o.Classes, "attribution_of_package_without_purl_not_asserted")
			got = append(got, key+"|"+loc)
			continue
		}
		if p.LayerDetails == nil {
			return o, fmt.Errorf("package %s at %s has no layer details", key, loc)
		}
		if *p.LayerDetails != want {
			return o, fmt.Errorf("package %s at %s is attributed to %+v, the earliest layer from which it is present in every later view is %+v (chain of %d layers)", key, loc, *p.LayerDetails, want, len(views))
		}
		if origin != 0 && origin != last {
			middle = true
		}
		if gap {
			readded = true
		}
		got = append(got, key+"|"+loc)
	}
	// completeness of the final inventory against the model
	var want []string
	for _, f := range c.Files {
		for _, e := range exts {
			le := e.(*listExtractor)
			if !strings.HasSuffix(f, le.suffix) {
				continue
			}
			for k := range parse(views[last], f, le) {
				want = append(want, k+"|"+f)
			}
		}
	}
	sort.Strings(got)
	sort.Strings(want)
	if strings.Join(got, "\n") != strings.Join(want, "\n") {
		return o, fmt.Errorf("container scan reports %v, the final view holds %v", got, want)
	}
	if middle {
		o.Classes = append(o.Classes, "origin_in_a_middle_layer")
	}
	if readded {
		o.Classes = append(o.Classes, "removed_and_readded")
	}
	if len(plan) > len(desc.Layers) {
		o.Classes = append(o.Classes, "with_empty_layers")
	}
	seenDiff := map[string]bool{}
	for _, d := range diffIDs {
		if seenDiff[d] {
			o.Classes = append(o.Classes, "byte_identical_layers")
			break
		}
		seenDiff[d] = true
	}
	if c.TwoExtractor {
		o.Classes = append(o.Classes, "two_extractors_one_file")
	}
	if c.NilPurl {
		o.Classes = append(o.Classes, "package_without_purl")
	}
	for _, l := range c.Layers {
		for _, a := range l.Actions {
			o.Classes = append(o.Classes, "action_"+a.Kind)
		}
	}
	o.NonTrivial = len(views) >= 3 && middle && nPkgs > 0
	return o, nil
}

func TestC05(t *testing.T) {
	ev.Check(t, ev.Get("C05"), ev.Scale(1500, 3000), genC05, propC05)
}
