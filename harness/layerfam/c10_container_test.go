package layerfam

// C10, container leg: "never hands a file larger than the size limit to any extractor" also
// holds for the passes ScanContainer makes over earlier layers of an image when it attributes
// packages to layers. One package-list file is rewritten by several layers with sizes on both
// sides of ScanConfig.MaxFileSize; a recording extractor notes the size of everything it is
// handed.

import (
	"bufio"
	"context"
	"fmt"
	"strings"
	"sync"
	"testing"

	scalibr "github.com/google/osv-scalibr"
	"github.com/google/osv-scalibr/artifact/image/layerscanning/image"
	"github.com/google/osv-scalibr/extractor"
	"github.com/google/osv-scalibr/extractor/filesystem"
	"github.com/google/osv-scalibr/inventory"
	"github.com/google/osv-scalibr/plugin"
	"github.com/google/osv-scalibr/purl"
	"pgregory.net/rapid"

	"verifharness/internal/ev"
	"verifharness/internal/tarimg"
)

type c10ContainerCase struct {
	Leg   string `json:"leg"` // "container"
	Limit int    `json:"limit"`
	// Sizes[l][f] is the size of file f as written by layer l (-1: the layer leaves it alone).
	Sizes [][]int `json:"sizes"`
}

var c10ContainerFiles = []string{"opt/app/a.list", "opt/b.list"}

type sizeRecorder struct {
	mu    sync.Mutex
	calls []string
	over  []string
	limit int64
}

func (e *sizeRecorder) Name() string                        { return "harness/sizes" }
func (e *sizeRecorder) Version() int                        { return 1 }
func (e *sizeRecorder) Requirements() *plugin.Capabilities  { return &plugin.Capabilities{} }
func (e *sizeRecorder) Ecosystem(*extractor.Package) string { return "" }
func (e *sizeRecorder) ToPURL(p *extractor.Package) *purl.PackageURL {
	return &purl.PackageURL{Type: purl.TypeGeneric, Name: p.Name, Version: p.Version}
}
func (e *sizeRecorder) FileRequired(api filesystem.FileAPI) bool {
	return strings.HasSuffix(api.Path(), ".list")
}
func (e *sizeRecorder) Extract(ctx context.Context, in *filesystem.ScanInput) (inventory.Inventory, error) {
	var size int64 = -1
	if in.Info != nil {
		size = in.Info.Size()
	}
	e.mu.Lock()
	e.calls = append(e.calls, fmt.Sprintf("%s:%d", in.Path, size))
	if size > e.limit {
		e.over = append(e.over, fmt.Sprintf("%s (%d bytes)", in.Path, size))
	}
	e.mu.Unlock()
	var inv inventory.Inventory
	sc := bufio.NewScanner(in.Reader)
	sc.Buffer(make([]byte, 1<<16), 1<<20)
	for sc.Scan() {
		f := strings.Fields(sc.Text())
		if len(f) == 2 {
			inv.Packages = append(inv.Packages, &extractor.Package{Name: f[0], Version: f[1], Locations: []string{in.Path}})
		}
	}
	return inv, sc.Err()
}

// listOfSize renders a package list of exactly n bytes (n >= 8) that always holds "alpha 1.0".
func listOfSize(n int, layer int) string {
	s := "alpha 1.0\n"
	for len(s) < n {
		line := fmt.Sprintf("pad%d %d.0\n", len(s), layer)
		if len(s)+len(line) > n {
			line = strings.Repeat("#", n-len(s)-1) + "\n"
			if n-len(s) < 1 {
				break
			}
		}
		s += line
	}
	if len(s) > n {
		s = s[:n]
	}
	return s
}

func genC10Container(t *rapid.T) c10ContainerCase {
	c := c10ContainerCase{Leg: "container", Limit: rapid.SampledFrom([]int{16, 40, 100, 4096}).Draw(t, "limit")}
	nl := rapid.IntRange(2, 5).Draw(t, "n_layers")
	L := c.Limit
	for l := 0; l < nl; l++ {
		row := make([]int, len(c10ContainerFiles))
		for f := range row {
			row[f] = rapid.SampledFrom([]int{-1, -1, 12, L - 1, L, L + 1, 2 * L, 20 * L, 12, L}).Draw(t, "size")
			if row[f] >= 0 && row[f] < 12 {
				row[f] = 12
			}
		}
		c.Sizes = append(c.Sizes, row)
	}
	return c
}

func propC10Container(c c10ContainerCase) (ev.Outcome, error) {
	var o ev.Outcome
	if c.Leg != "container" || c.Limit <= 0 || len(c.Sizes) == 0 {
		return o, nil
	}
	desc := tarimg.Image{}
	overInEarlier, underAtEnd := false, false
	last := make([]int, len(c10ContainerFiles))
	for i := range last {
		last[i] = -1
	}
	for li, row := range c.Sizes {
		es := []tarimg.Entry{tarimg.D("opt", 0o755), tarimg.D("opt/app", 0o755)}
		for f, sz := range row {
			if f >= len(c10ContainerFiles) || sz < 0 {
				continue
			}
			es = append(es, tarimg.F(c10ContainerFiles[f], listOfSize(sz, li), 0o644))
			if last[f] > c.Limit {
				overInEarlier = true
			}
			last[f] = sz
		}
		es = append(es, tarimg.F(fmt.Sprintf("keep%d", li), "x", 0o644))
		desc.Layers = append(desc.Layers, tarimg.Layer{Entries: es})
	}
	for _, sz := range last {
		if sz >= 0 && sz <= c.Limit {
			underAtEnd = true
		}
	}
	v1img, err := desc.Build()
	if err != nil {
		return o, nil
	}
	img, err := image.FromV1Image(v1img, image.DefaultConfig())
	if err != nil {
		return o, fmt.Errorf("FromV1Image failed on a well-formed image: %v", err)
	}
	defer img.CleanUp()
	rec := &sizeRecorder{limit: int64(c.Limit)}
	cfg := &scalibr.ScanConfig{
		FilesystemExtractors: []filesystem.Extractor{rec},
		Capabilities:         &plugin.Capabilities{OS: plugin.OSLinux, Network: plugin.NetworkOffline},
		MaxFileSize:          c.Limit,
	}
	res, err := scalibr.New().ScanContainer(context.Background(), img, cfg)
	if err != nil {
		return o, fmt.Errorf("ScanContainer: %v", err)
	}
	o.NonTrivial = overInEarlier && underAtEnd
	o.Classes = append(o.Classes, "container_size_limit")
	if o.NonTrivial {
		o.Classes = append(o.Classes, "container_oversized_version_in_earlier_layer")
	}
	if len(rec.over) > 0 {
		return o, fmt.Errorf("ScanContainer with MaxFileSize=%d handed its extractor %v (all calls: %v)", c.Limit, rec.over, rec.calls)
	}
	// what the final file system holds within the limit is reported
	for f, sz := range last {
		if sz < 0 || sz > c.Limit {
			continue
		}
		found := false
		for _, p := range res.Inventory.Packages {
			if p.Name == "alpha" && len(p.Locations) > 0 && p.Locations[0] == c10ContainerFiles[f] {
				found = true
			}
		}
		if !found {
			return o, fmt.Errorf("%s has %d bytes in the final file system (limit %d) but its package alpha is not reported", c10ContainerFiles[f], sz, c.Limit)
		}
	}
	return o, nil
}

func TestC10_container(t *testing.T) {
	ev.Check(t, ev.Get("C10"), ev.Scale(200, 1500), genC10Container, propC10Container)
}
