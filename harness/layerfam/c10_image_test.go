package layerfam

// C10 (image part) — an image load never exposes a layer file at or above the per-file
// byte limit in any view and never writes more than that many bytes of it to disk.

import (
	"fmt"
	"io"
	"io/fs"
	"os"
	"path/filepath"
	"strings"
	"testing"

	"github.com/google/osv-scalibr/artifact/image/layerscanning/image"
	"pgregory.net/rapid"

	"verifharness/internal/ev"
	"verifharness/internal/tarimg"
)

type c10File struct {
	Path string `json:"path"`
	Size int    `json:"size"`
}

type c10ImageCase struct {
	Limit  int64       `json:"limit"`
	Layers [][]c10File `json:"layers"`
}

func genC10Image(t *rapid.T) c10ImageCase {
	c := c10ImageCase{Limit: rapid.SampledFrom([]int64{1, 16, 64, 1, 16, 64, 4095, 32768, 32769, 40000, 50000, 65537, 100000}).Draw(t, "limit")}
	L := int(c.Limit)
	nl := rapid.IntRange(1, 3).Draw(t, "n_layers")
	paths := []string{"a", "d/b", "d/c", "e/f/g", "h"}
	for i := 0; i < nl; i++ {
		var fs []c10File
		used := map[string]bool{}
		nf := rapid.IntRange(1, 4).Draw(t, "n_files")
		for j := 0; j < nf; j++ {
			p := rapid.SampledFrom(paths).Draw(t, "path")
			if used[p] {
				continue
			}
			used[p] = true
			sz := rapid.SampledFrom([]int{L - 1, L, L + 1, 2 * L, 0, 1, L - 1, L, 3*L + 7, L + 32768, L + 4096}).Draw(t, "size")
			if sz < 0 {
				sz = 0
			}
			fs = append(fs, c10File{Path: p, Size: sz})
		}
		c.Layers = append(c.Layers, fs)
	}
	return c
}

func propC10Image(c c10ImageCase) (ev.Outcome, error) {
	var o ev.Outcome
	if c.Limit <= 0 || len(c.Layers) == 0 {
		return o, nil
	}
	desc := tarimg.Image{}
	writes := map[string]int{} // path -> number of layers writing it
	boundary := false
	for li, fs := range c.Layers {
		var es []tarimg.Entry
		dirs := map[string]bool{}
		for _, f := range fs {
			for d := filepath.Dir(f.Path); d != "."; d = filepath.Dir(d) {
				if !dirs[d] {
					dirs[d] = true
				}
			}
		}
		for _, d := range []string{"d", "e", "e/f"} {
			if dirs[d] {
				es = append(es, tarimg.D(d, 0o755))
			}
		}
		for _, f := range fs {
			es = append(es, tarimg.F(f.Path, strings.Repeat(fmt.Sprintf("%d", li), f.Size), 0o644))
			writes[f.Path]++
			if int64(f.Size) >= c.Limit-1 && int64(f.Size) <= c.Limit+1 {
				boundary = true
			}
		}
		es = append(es, tarimg.F(fmt.Sprintf("keep%d", li), "", 0o644))
		desc.Layers = append(desc.Layers, tarimg.Layer{Entries: es})
	}
	v1img, err := desc.Build()
	if err != nil {
		return o, nil
	}
	cfg := image.DefaultConfig()
	cfg.MaxFileBytes = c.Limit
	img, err := image.FromV1Image(v1img, cfg)
	if err != nil {
		return o, fmt.Errorf("FromV1Image with MaxFileBytes=%d failed: %v", c.Limit, err)
	}
	defer img.CleanUp()
	chains, err := img.ChainLayers()
	if err != nil {
		return o, fmt.Errorf("ChainLayers: %v", err)
	}
	if len(chains) != len(c.Layers) {
		return o, fmt.Errorf("%d chain layers for %d layers", len(chains), len(c.Layers))
	}
	// (1) no view exposes a file at or above the limit
	for i, ch := range chains {
		fsys := ch.FS()
		err := fs.WalkDir(fsys, ".", func(p string, d fs.DirEntry, err error) error {
			if err != nil || d.IsDir() {
				return nil
			}
			fi, serr := fsys.Stat(p)
			if serr != nil || !fi.Mode().IsRegular() {
				return nil
			}
			if fi.Size() >= c.Limit {
				return fmt.Errorf("view %d exposes %q with size %d, the per-file limit is %d", i, p, fi.Size(), c.Limit)
			}
			f, oerr := fsys.Open(p)
			if oerr != nil {
				return nil
			}
			defer f.Close()
			b, _ := io.ReadAll(f)
			if int64(len(b)) >= c.Limit {
				return fmt.Errorf("view %d lets %d bytes of %q be read, the per-file limit is %d", i, len(b), p, c.Limit)
			}
			return nil
		})
		if err != nil {
			return o, err
		}
	}
	// direct lookups as well (a listing may hide what a lookup still offers)
	for i, ch := range chains {
		for p := range writes {
			if fi, err := ch.FS().Stat(p); err == nil && fi.Mode().IsRegular() && fi.Size() >= c.Limit {
				return o, fmt.Errorf("view %d: direct Stat(%q) reports size %d, the per-file limit is %d", i, p, fi.Size(), c.Limit)
			}
		}
	}
	// (2) nothing on disk is larger than the limit
	err = filepath.WalkDir(img.ExtractDir, func(p string, d fs.DirEntry, err error) error {
		if err != nil || d.IsDir() {
			return nil
		}
		fi, serr := os.Lstat(p)
		if serr == nil && fi.Mode().IsRegular() && fi.Size() > c.Limit {
			return fmt.Errorf("%s on disk has %d bytes, the per-file limit is %d", strings.TrimPrefix(p, img.ExtractDir), fi.Size(), c.Limit)
		}
		return nil
	})
	if err != nil {
		return o, err
	}
	// (3) files below the limit that are written by exactly one layer are exposed with
	// their content from that layer on
	for li, fsl := range c.Layers {
		for _, f := range fsl {
			if writes[f.Path] != 1 || int64(f.Size) >= c.Limit {
				continue
			}
			for j := li; j < len(chains); j++ {
				h, err := chains[j].FS().Open(f.Path)
				if err != nil {
					return o, fmt.Errorf("view %d does not offer %q (size %d, below the limit %d): %v", j, f.Path, f.Size, c.Limit, err)
				}
				b, _ := io.ReadAll(h)
				h.Close()
				if len(b) != f.Size {
					return o, fmt.Errorf("view %d offers %q with %d bytes, the layer wrote %d", j, f.Path, len(b), f.Size)
				}
			}
		}
	}
	o.NonTrivial = boundary
	o.Classes = append(o.Classes, fmt.Sprintf("image_limit_%d", c.Limit))
	return o, nil
}

func TestC10_image(t *testing.T) {
	ev.Check(t, ev.Get("C10"), ev.Scale(300, 2500), genC10Image, propC10Image)
}
