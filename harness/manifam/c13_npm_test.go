package manifam

// C13, package.json leg: layout-aware generator with its own byte-exact renderer.

import (
	"bytes"
	"encoding/json"
	"fmt"
	"os"
	"path/filepath"
	"sort"
	"strings"

	"deps.dev/util/resolve"
	"deps.dev/util/resolve/dep"
	scalibrfs "github.com/google/osv-scalibr/fs"
	"github.com/google/osv-scalibr/guidedremediation/result"
	"github.com/google/osv-scalibr/guidedremediation/verifhooks"
	"pgregory.net/rapid"

	"verifharness/internal/ev"
)

// jv is an ordered JSON value. String bodies (S of "s", and member keys K) are stored
// exactly as they appear between the quotes in the file, i.e. already escaped, so that the
// renderer never makes an escaping decision of its own.
type jv struct {
	K string `json:"k,omitempty"` // member key (when inside an object)
	T string `json:"t"`           // s(tring) l(iteral: number/true/false/null) o(bject) a(rray)
	S string `json:"s,omitempty"`
	C []jv   `json:"c,omitempty"`
}

type npmLayout struct {
	Indent     string `json:"indent"`  // "" with Compact
	Colon      string `json:"colon"`   // ": " | ":" | " : "
	NL         string `json:"nl"`      // "\n" | "\r\n"
	Compact    bool   `json:"compact"` // everything on one line
	CommaSpace bool   `json:"comma_space,omitempty"`
	TrailingNL bool   `json:"trailing_nl"`
}

type npmUpdate struct {
	Key string `json:"key"` // the key in the dependency sections (alias name for aliases)
	To  string `json:"to"`  // new version specifier (without the npm:name@ prefix)
}

type npmCase struct {
	Doc     jv          `json:"doc"`
	Layout  npmLayout   `json:"layout"`
	Updates []npmUpdate `json:"updates"`
	OutTree string      `json:"out_tree,omitempty"` // see c13Out
	OutName string      `json:"out_name,omitempty"`
}

var npmSections = []string{"dependencies", "devDependencies", "optionalDependencies"}

func renderJSON(v jv, l npmLayout) []byte {
	var b bytes.Buffer
	var rec func(v jv, depth int)
	nl := func(depth int) {
		if l.Compact {
			return
		}
		b.WriteString(l.NL)
		for i := 0; i < depth; i++ {
			b.WriteString(l.Indent)
		}
	}
	rec = func(v jv, depth int) {
		switch v.T {
		case "s":
			b.WriteByte('"')
			b.WriteString(v.S)
			b.WriteByte('"')
		case "l":
			b.WriteString(v.S)
		case "o", "a":
			open, cl := byte('{'), byte('}')
			if v.T == "a" {
				open, cl = '[', ']'
			}
			b.WriteByte(open)
			if len(v.C) == 0 {
				b.WriteByte(cl)
				return
			}
			for i, c := range v.C {
				if i > 0 {
					b.WriteByte(',')
					if l.Compact && l.CommaSpace {
						b.WriteByte(' ')
					}
				}
				nl(depth + 1)
				if v.T == "o" {
					b.WriteByte('"')
					b.WriteString(c.K)
					b.WriteByte('"')
					b.WriteString(l.Colon)
				}
				rec(c, depth+1)
			}
			nl(depth)
			b.WriteByte(cl)
		}
	}
	rec(v, 0)
	if l.TrailingNL {
		b.WriteString(l.NL)
	}
	return b.Bytes()
}

// npmPathChars are the characters that gjson / sjson give a meaning to inside a path.
const npmPathChars = ".*?|\\"

func npmKeyHasPathChars(k string) bool { return strings.ContainsAny(k, npmPathChars) }

// classC13Npm lists the known-finding classes an npm case falls in.
func classC13Npm(c *npmCase) []string {
	for _, u := range c.Updates {
		if npmKeyHasPathChars(u.Key) {
			return []string{"c13.npm_name_path_chars"}
		}
	}
	return nil
}

// workspace is the per-process scratch directory of the C13 checks. Creating and
// removing directories per case dominated the run time, so the directory layout is made
// once and input files are overwritten in place; output files of the previous case are
// removed so that a writer that does not write is noticed.
type workspace struct {
	root  string
	dirs  map[string]bool
	files map[string]bool // relative paths that currently exist
}

var c13WS *workspace

func c13Workspace() (*workspace, error) {
	if c13WS != nil {
		return c13WS, nil
	}
	base := os.Getenv("VERIF_SCRATCH")
	if base == "" {
		base = os.TempDir()
	}
	if err := os.MkdirAll(base, 0o755); err != nil {
		return nil, err
	}
	root, err := os.MkdirTemp(base, "c13-")
	if err != nil {
		return nil, err
	}
	c13WS = &workspace{root: root, dirs: map[string]bool{}, files: map[string]bool{}}
	return c13WS, nil
}

func (w *workspace) put(rel string, data []byte) error {
	p := filepath.Join(w.root, rel)
	if d := filepath.Dir(p); !w.dirs[d] {
		if err := os.MkdirAll(d, 0o755); err != nil {
			return err
		}
		w.dirs[d] = true
	}
	w.files[rel] = true
	// No O_TRUNC: truncating an existing file to zero and rewriting it makes ext4 flush on
	// close; overwrite in place and cut to length instead.
	f, err := os.OpenFile(p, os.O_WRONLY|os.O_CREATE, 0o644)
	if err != nil {
		return err
	}
	if _, err := f.Write(data); err != nil {
		f.Close()
		return err
	}
	if err := f.Truncate(int64(len(data))); err != nil {
		f.Close()
		return err
	}
	return f.Close()
}

// reset prepares the workspace for a case that uses the given input files: other input
// files are removed, existing output files are overwritten with the stale marker.
func (w *workspace) reset(inputs map[string]bool) error {
	for rel := range w.files {
		switch {
		case strings.HasPrefix(rel, "in/"):
			if !inputs[rel] {
				if err := os.Remove(filepath.Join(w.root, rel)); err != nil && !os.IsNotExist(err) {
					return err
				}
				delete(w.files, rel)
			}
		case strings.HasPrefix(rel, "out/"):
			if err := os.Remove(filepath.Join(w.root, rel)); err != nil && !os.IsNotExist(err) {
				return err
			}
			delete(w.files, rel)
		}
	}
	return nil
}

// output reads a file the writer was asked to produce.
func (w *workspace) output(rel string) ([]byte, error) {
	b, err := os.ReadFile(filepath.Join(w.root, rel))
	if err != nil {
		return nil, err
	}
	w.files[rel] = true
	return b, nil
}

// rel is the text of an error with the (per-process) workspace root cut out, so that the
// verdict of a case reads the same in every run.
func (w *workspace) rel(err error) string {
	if err == nil {
		return ""
	}
	return strings.ReplaceAll(err.Error(), w.root+string(filepath.Separator), "")
}

func (w *workspace) cleanup() {
	if w != nil {
		_ = os.RemoveAll(w.root)
	}
}

func reqString(r verifhooks.Requirement) string {
	g := append([]string(nil), r.Groups...)
	sort.Strings(g)
	return fmt.Sprintf("%s %q {%s} groups=%v", r.Req.Name, r.Req.Version, r.Req.Type.String(), g)
}

func reqMultiset(rs []verifhooks.Requirement) []string {
	out := make([]string, 0, len(rs))
	for _, r := range rs {
		out = append(out, reqString(r))
	}
	sort.Strings(out)
	return out
}

func diffStrings(want, got []string) string {
	wm := map[string]int{}
	for _, w := range want {
		wm[w]++
	}
	var extra []string
	for _, g := range got {
		if wm[g] > 0 {
			wm[g]--
		} else {
			extra = append(extra, g)
		}
	}
	var missing []string
	for _, w := range want {
		if wm[w] > 0 {
			wm[w]--
			missing = append(missing, w)
		}
	}
	return fmt.Sprintf("missing %v; unexpected %v", missing, extra)
}

func firstDiff(a, b []byte) string {
	n := len(a)
	if len(b) < n {
		n = len(b)
	}
	i := 0
	for i < n && a[i] == b[i] {
		i++
	}
	lo := i - 40
	if lo < 0 {
		lo = 0
	}
	ha, hb := i+40, i+40
	if ha > len(a) {
		ha = len(a)
	}
	if hb > len(b) {
		hb = len(b)
	}
	return fmt.Sprintf("at byte %d: want ...%q, got ...%q", i, a[lo:ha], b[lo:hb])
}

func propC13Npm(c *npmCase) (ev.Outcome, error) {
	o := ev.Outcome{Classes: []string{"npm"}}
	if c.Doc.T != "o" {
		return o, fmt.Errorf("bad case: document is not an object")
	}
	ws, err := c13Workspace()
	if err != nil {
		return o, fmt.Errorf("harness: %v", err)
	}
	if err := ws.reset(map[string]bool{"in/package.json": true}); err != nil {
		return o, fmt.Errorf("harness: %v", err)
	}
	in := renderJSON(c.Doc, c.Layout)
	if err := ws.put("in/package.json", in); err != nil {
		return o, fmt.Errorf("harness: %v", err)
	}
	dir := ws.root
	fsys := scalibrfs.DirFS(filepath.Join(dir, "in"))
	reqsIn, err := verifhooks.ReadManifest(resolve.NPM, fsys, "package.json")
	if err != nil {
		return o, fmt.Errorf("bad case: generated package.json is not readable: %v\n%s", err, in)
	}

	// updates, addressed the way ConstructPatches does: name, version as read, type of
	// the requirement as read.
	type applied struct {
		key, oldLit, newLit string
		reqIdx              int
	}
	var ups []result.PackageUpdate
	var apps []applied
	seenKey := map[string]bool{}
	for _, u := range c.Updates {
		if seenKey[u.Key] {
			return o, fmt.Errorf("bad case: two updates for key %q", u.Key)
		}
		seenKey[u.Key] = true
		idx := -1
		for i, r := range reqsIn {
			ka, aliased := r.Req.Type.GetAttr(dep.KnownAs)
			if (aliased && ka == u.Key) || (!aliased && r.Req.Name == u.Key) {
				idx = i
			}
		}
		if idx < 0 {
			return o, fmt.Errorf("bad case: update for %q which is not a requirement of the file", u.Key)
		}
		r := reqsIn[idx].Req
		if r.Version == u.To {
			return o, fmt.Errorf("bad case: update of %q to its current version", u.Key)
		}
		ups = append(ups, result.PackageUpdate{Name: r.Name, VersionFrom: r.Version, VersionTo: u.To, Type: r.Type.Clone()})
		a := applied{key: u.Key, oldLit: r.Version, newLit: u.To, reqIdx: idx}
		if _, aliased := r.Type.GetAttr(dep.KnownAs); aliased {
			a.oldLit = "npm:" + r.Name + "@" + r.Version
			a.newLit = "npm:" + r.Name + "@" + u.To
		}
		apps = append(apps, a)
	}

	place := c13Out{Tree: c.OutTree, Name: c.OutName}
	outTree, outRel, err := place.resolve("package.json")
	if err != nil {
		return o, fmt.Errorf("bad case: %v", err)
	}
	outFile := outTree + "/" + outRel
	// whatever a case leaves at the requested place, or under the manifest's own name beside
	// it, is removed before the next one
	ws.files[outFile] = true
	ws.files[outTree+"/package.json"] = true
	werr := verifhooks.WriteManifest(resolve.NPM, fsys, "package.json", ups, filepath.Join(dir, filepath.FromSlash(outFile)))
	if werr != nil {
		if len(ups) == 0 {
			return o, fmt.Errorf("Write with no updates fails: %v", werr)
		}
		o.Classes = append(o.Classes, "npm_write_error")
		return o, nil
	}
	got, err := ws.output(outFile)
	if err != nil {
		return o, fmt.Errorf("Write returned nil but there is no file at the output path %s: %s", outFile, ws.rel(err))
	}
	// a Write to another path leaves the manifest that was read alone
	if outFile != "in/package.json" {
		if now, err := ws.output("in/package.json"); err != nil || !bytes.Equal(now, in) {
			return o, fmt.Errorf("Write to %s modified the original in/package.json (%d updates, err=%v): %s", outFile, len(ups), err, firstDiff(in, now))
		}
	}

	// (3) byte-exact preservation. Entries of an updated key whose literal equals the
	// addressed one may or may not be rewritten in lower-precedence sections; whichever the
	// writer chose is taken over into the expected rendering (the re-read below decides
	// whether the effective entry was changed). Everything else must be untouched.
	var parsed map[string]json.RawMessage
	if err := json.Unmarshal(got, &parsed); err != nil {
		return o, fmt.Errorf("output is not valid JSON: %v", err)
	}
	actual := func(sec, key string) (string, bool) {
		var m map[string]json.RawMessage
		if json.Unmarshal(parsed[sec], &m) != nil {
			return "", false
		}
		var s string
		if json.Unmarshal(m[key], &s) != nil {
			return "", false
		}
		return s, true
	}
	want := cloneJV(c.Doc)
	sectionsHit := 0
	for _, a := range apps {
		hits := 0
		for si := range want.C {
			sec := &want.C[si]
			if sec.T != "o" || !isNpmSection(sec.K) {
				continue
			}
			for di := range sec.C {
				e := &sec.C[di]
				if e.K != a.key || e.T != "s" || e.S != a.oldLit {
					continue
				}
				hits++
				if act, ok := actual(sec.K, a.key); ok && act == a.oldLit {
					continue // left alone: acceptable for a shadowed entry
				}
				e.S = a.newLit
			}
		}
		if hits > sectionsHit {
			sectionsHit = hits
		}
	}
	wantBytes := renderJSON(want, c.Layout)
	if !bytes.Equal(wantBytes, got) {
		return o, fmt.Errorf("package.json not preserved byte for byte (%d updates): %s", len(ups), firstDiff(wantBytes, got))
	}

	// (2)+(4) re-reading yields the original requirements with the new versions.
	reqsOut, err := verifhooks.ReadManifest(resolve.NPM, scalibrfs.DirFS(filepath.Join(dir, filepath.FromSlash(outTree))), outRel)
	if err != nil {
		return o, fmt.Errorf("written package.json (%s) is not readable: %v", outFile, err)
	}
	exp := append([]verifhooks.Requirement(nil), reqsIn...)
	for _, a := range apps {
		r := exp[a.reqIdx]
		r.Req.Version = c.Updates[indexOfKey(c.Updates, a.key)].To
		exp[a.reqIdx] = r
	}
	if w, g := reqMultiset(exp), reqMultiset(reqsOut); strings.Join(w, "\n") != strings.Join(g, "\n") {
		return o, fmt.Errorf("Write returned nil for %s but re-reading does not give the requested requirements: %s", describeUpdates(ups), diffStrings(w, g))
	}

	o.NonTrivial = len(ups) > 0
	o.Classes = append(o.Classes, "npm_"+place.class())
	if len(ups) == 0 {
		o.Classes = append(o.Classes, "npm_no_updates")
	}
	if len(ups) >= 2 {
		o.Classes = append(o.Classes, "npm_updates_ge2")
	}
	if sectionsHit >= 2 {
		o.Classes = append(o.Classes, "npm_update_hits_ge2_sections")
	}
	for _, a := range apps {
		switch {
		case strings.HasPrefix(a.oldLit, "npm:"):
			o.Classes = append(o.Classes, "npm_alias_updated")
		}
		switch {
		case strings.HasPrefix(a.key, "@"):
			o.Classes = append(o.Classes, "npm_scoped_name_updated")
		case npmKeyHasPathChars(a.key):
			o.Classes = append(o.Classes, "npm_path_char_name_updated")
		case strings.ContainsAny(a.key, "~_") || strings.ToLower(a.key) != a.key || strings.ContainsAny(a.key, "!'()"):
			o.Classes = append(o.Classes, "npm_special_name_updated")
		}
	}
	if c.Layout.Compact {
		o.Classes = append(o.Classes, "npm_compact_layout")
	}
	if c.Layout.NL == "\r\n" {
		o.Classes = append(o.Classes, "npm_crlf")
	}
	return o, nil
}

func describeUpdates(ups []result.PackageUpdate) string {
	var s []string
	for _, u := range ups {
		s = append(s, fmt.Sprintf("%s %q->%q {%s}", u.Name, u.VersionFrom, u.VersionTo, u.Type.String()))
	}
	return "[" + strings.Join(s, ", ") + "]"
}

func indexOfKey(us []npmUpdate, k string) int {
	for i, u := range us {
		if u.Key == k {
			return i
		}
	}
	return -1
}

func isNpmSection(k string) bool {
	for _, s := range npmSections {
		if s == k {
			return true
		}
	}
	return false
}

func cloneJV(v jv) jv {
	out := v
	if v.C != nil {
		out.C = make([]jv, len(v.C))
		for i := range v.C {
			out.C[i] = cloneJV(v.C[i])
		}
	}
	return out
}

// ---------------------------------------------------------------------------------------
// generator

var npmPlainNames = []string{"lodash", "express", "left-pad", "react", "a", "is-odd", "x2", "webpack-cli", "uuid", "ms"}
var npmScopes = []string{"@babel", "@types", "@my-org", "@a", "@scope_x"}
var npmDottedNames = []string{"socket.io", "lodash.merge", "chart.js", "engine.io-client", "a.b.c", "big.js"}
var npmSpecialNames = []string{"under_score", "tilde~pkg", "JSONStream", "Base64", "dash-_mix", "q~1"}
var npmLegacyNames = []string{"weird*name", "bang!", "it's", "par(en)s", "what?"}
var npmSpecs = []string{"^1.2.3", "~0.4.0", "1.0.0", "*", "latest", ">=1.0.0 <2.0.0", "1.x", "^0.0.1", "2", "1.2.3 || 2.x", "^10.20.30-beta.1", "next", "=3.1.4", "~1"}
var npmNonRegistry = []string{"file:../local", "git+https://github.com/u/r.git#v1.0.0", "user/repo", "https://example.com/p.tgz", "github:u/r#semver:^1.0"}

func genNpmName(t *rapid.T, used map[string]bool) string {
	for tries := 0; ; tries++ {
		var n string
		switch rapid.SampledFrom([]string{"plain", "plain", "scoped", "scoped", "dotted", "dotted", "special", "legacy"}).Draw(t, "name_kind") {
		case "plain":
			n = rapid.SampledFrom(npmPlainNames).Draw(t, "name")
		case "scoped":
			n = rapid.SampledFrom(npmScopes).Draw(t, "scope") + "/" + rapid.SampledFrom(append(append([]string{}, npmPlainNames...), "core.js", "node_x")).Draw(t, "name")
		case "dotted":
			n = rapid.SampledFrom(npmDottedNames).Draw(t, "name")
		case "special":
			n = rapid.SampledFrom(npmSpecialNames).Draw(t, "name")
		default:
			n = rapid.SampledFrom(npmLegacyNames).Draw(t, "name")
		}
		if tries > 3 {
			n += fmt.Sprintf("-%d", len(used))
		}
		if !used[n] {
			used[n] = true
			return n
		}
	}
}

func genExtraValue(t *rapid.T, depth int) jv {
	kinds := []string{"s", "s", "l", "o", "a"}
	if depth >= 2 {
		kinds = []string{"s", "l"}
	}
	switch rapid.SampledFrom(kinds).Draw(t, "extra_kind") {
	case "s":
		return jv{T: "s", S: rapid.SampledFrom([]string{"", "index.js", "MIT", `echo \"hi\" && exit 1`, `café \\ path`, "日本語 ünï", "a.b.c", "dependencies", `tab\there`, "^1.0.0", "https://example.com/x?y=1&z=<2>"}).Draw(t, "str")}
	case "l":
		return jv{T: "l", S: rapid.SampledFrom([]string{"true", "false", "null", "0", "-1.5e3", "42"}).Draw(t, "lit")}
	case "a":
		n := rapid.IntRange(0, 3).Draw(t, "arr_n")
		v := jv{T: "a"}
		for i := 0; i < n; i++ {
			v.C = append(v.C, genExtraValue(t, depth+1))
		}
		return v
	default:
		n := rapid.IntRange(0, 3).Draw(t, "obj_n")
		v := jv{T: "o"}
		used := map[string]bool{}
		for i := 0; i < n; i++ {
			k := rapid.SampledFrom([]string{"test", "build", "dependencies", "lodash", "socket.io", "node", "a b", "x.y", "type", "url", "@s/n"}).Draw(t, "obj_key")
			if used[k] {
				continue
			}
			used[k] = true
			c := genExtraValue(t, depth+1)
			c.K = k
			v.C = append(v.C, c)
		}
		return v
	}
}

func genNpmCase(t *rapid.T, col *ev.Collector) *npmCase {
	c := &npmCase{}
	// layout
	if chance(t, "compact", 1, 6) {
		c.Layout = npmLayout{Compact: true, Colon: rapid.SampledFrom([]string{":", ": "}).Draw(t, "colon"), CommaSpace: rapid.Bool().Draw(t, "comma_space"), NL: "\n"}
	} else {
		c.Layout = npmLayout{
			Indent: rapid.SampledFrom([]string{"  ", "  ", "    ", "\t", " "}).Draw(t, "indent"),
			Colon:  rapid.SampledFrom([]string{": ", ": ", ":", " : "}).Draw(t, "colon"),
			NL:     rapid.SampledFrom([]string{"\n", "\n", "\n", "\r\n"}).Draw(t, "nl"),
		}
	}
	c.Layout.TrailingNL = rapid.Bool().Draw(t, "trailing_nl")

	// requirement units
	type unit struct {
		key, lit string
		registry bool
		secs     []string
		lits     []string
	}
	usedKeys := map[string]bool{}
	usedReal := map[string]bool{}
	nUnits := rapid.IntRange(0, 6).Draw(t, "units")
	var units []unit
	secMembers := map[string][]jv{}
	for i := 0; i < nUnits; i++ {
		u := unit{key: genNpmName(t, usedKeys), registry: true}
		usedReal[u.key] = true
		spec := rapid.SampledFrom(npmSpecs).Draw(t, "spec")
		switch rapid.IntRange(0, 9).Draw(t, "unit_kind") {
		case 8, 9: // alias
			real := genNpmName(t, usedKeys) // reserves the real name as a key too, so that package keys stay unique
			u.lit = "npm:" + real + "@" + spec
		case 7: // non-registry
			u.lit = rapid.SampledFrom(npmNonRegistry).Draw(t, "nonreg")
			u.registry = false
		default:
			u.lit = spec
		}
		// sections: mostly one, sometimes several (with the same or another specifier)
		perm := rapid.Permutation(npmSections).Draw(t, "sec_perm")
		k := 1
		if u.registry && chance(t, "multi_sec", 1, 5) {
			k = rapid.IntRange(2, 3).Draw(t, "n_sec")
		}
		for j := 0; j < k; j++ {
			lit := u.lit
			if j > 0 && rapid.Bool().Draw(t, "other_spec") {
				other := rapid.SampledFrom(npmSpecs).Draw(t, "spec2")
				if strings.HasPrefix(u.lit, "npm:") {
					lit = u.lit[:strings.LastIndex(u.lit, "@")+1] + other
				} else {
					lit = other
				}
			}
			u.secs = append(u.secs, perm[j])
			u.lits = append(u.lits, lit)
			secMembers[perm[j]] = append(secMembers[perm[j]], jv{K: u.key, T: "s", S: lit})
		}
		units = append(units, u)
	}

	// top-level members
	var members []jv
	members = append(members, jv{K: "name", T: "s", S: rapid.SampledFrom([]string{"my-app", "@org/app", "x"}).Draw(t, "pkg_name")})
	if rapid.Bool().Draw(t, "has_version") {
		members = append(members, jv{K: "version", T: "s", S: "1.0.0"})
	}
	for _, s := range npmSections {
		ms, ok := secMembers[s]
		if !ok && !chance(t, "empty_sec_"+s, 1, 4) {
			continue
		}
		if len(ms) > 1 {
			p := rapid.Permutation(ms).Draw(t, "order_"+s)
			ms = p
		}
		members = append(members, jv{K: s, T: "o", C: ms})
	}
	if chance(t, "peer", 1, 3) {
		// peerDependencies are not requirements for the reader; whatever they hold must be preserved
		pd := jv{K: "peerDependencies", T: "o"}
		for _, u := range units {
			if chance(t, "peer_dup", 1, 3) {
				pd.C = append(pd.C, jv{K: u.key, T: "s", S: rapid.SampledFrom(npmSpecs).Draw(t, "peer_spec")})
			}
		}
		pd.C = append(pd.C, jv{K: "peer-only", T: "s", S: "^7.0.0"})
		members = append(members, pd)
	}
	extraKeys := []string{"description", "main", "scripts", "author", "license", "repository", "keywords", "config", "engines", "private", "overrides", "resolutions", "bundledDependencies", "peerDependenciesMeta", "files", "x.y"}
	nExtra := rapid.IntRange(0, 5).Draw(t, "extras")
	usedExtra := map[string]bool{}
	for i := 0; i < nExtra; i++ {
		k := rapid.SampledFrom(extraKeys).Draw(t, "extra_key")
		if usedExtra[k] {
			continue
		}
		usedExtra[k] = true
		v := genExtraValue(t, 0)
		if k == "peerDependenciesMeta" {
			v = jv{T: "o", C: []jv{{K: "peer-only", T: "o", C: []jv{{K: "optional", T: "l", S: "true"}}}}}
		}
		v.K = k
		members = append(members, v)
	}
	if len(members) > 1 {
		members = rapid.Permutation(members).Draw(t, "member_order")
	}
	c.Doc = jv{T: "o", C: members}

	// updates: a subset of the registry units
	knownPath := col != nil && col.IsKnown("c13.npm_name_path_chars")
	for _, u := range units {
		if !u.registry || !chance(t, "update_"+u.key, 2, 3) {
			continue
		}
		if knownPath && npmKeyHasPathChars(u.key) {
			col.Excluded("c13.npm_name_path_chars")
			continue
		}
		// the effective literal is the one of the highest-precedence section (dev > optional > prod)
		eff := ""
		for _, s := range []string{"dependencies", "optionalDependencies", "devDependencies"} {
			for j, us := range u.secs {
				if us == s {
					eff = u.lits[j]
				}
			}
		}
		cur := eff
		if strings.HasPrefix(eff, "npm:") {
			cur = eff[strings.LastIndex(eff, "@")+1:]
		}
		to := rapid.SampledFrom(append(append([]string{}, npmSpecs...), "^99.0.0", "0.0.1-rc.1", "~2.3.4")).Draw(t, "to")
		if to == cur {
			to = "^98.7.6"
		}
		c.Updates = append(c.Updates, npmUpdate{Key: u.key, To: to})
	}
	out := genC13Out(t, c13NpmOutNames)
	c.OutTree, c.OutName = out.Tree, out.Name
	return c
}
