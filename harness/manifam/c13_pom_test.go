package manifam

// C13, pom.xml leg: model + renderer of pom.xml documents (the manifest and an optional
// chain of up to three local ancestors: parent, grandparent, great-grandparent), an
// independent token-level reader of the rendered bytes (encoding/xml), and the property
// function.

import (
	"bytes"
	"encoding/xml"
	"fmt"
	"io"
	"path"
	"path/filepath"
	"sort"
	"strings"

	"deps.dev/util/maven"
	"deps.dev/util/resolve"
	"deps.dev/util/resolve/dep"
	scalibrfs "github.com/google/osv-scalibr/fs"
	"github.com/google/osv-scalibr/guidedremediation/result"
	"github.com/google/osv-scalibr/guidedremediation/verifhooks"

	"verifharness/internal/ev"
)

// ---------------------------------------------------------------------------------------
// model

type pomDep struct {
	G          string   `json:"g"`
	A          string   `json:"a"`
	Ver        string   `json:"ver,omitempty"` // literal text of <version>; "" = no element
	Type       string   `json:"type,omitempty"`
	Classifier string   `json:"classifier,omitempty"`
	Scope      string   `json:"scope,omitempty"`
	Optional   bool     `json:"optional,omitempty"`
	Excl       []string `json:"excl,omitempty"` // "g:a"
	VerCDATA   bool     `json:"ver_cdata,omitempty"`
	Comment    string   `json:"comment,omitempty"` // comment inside the element
	Order      int      `json:"order,omitempty"`   // 0: g,a,version,rest  1: version last  2: version first
	Pad        string   `json:"pad,omitempty"`     // elements whose text has white space around it: g(roupId) a(rtifactId) t(ype) c(lassifier) v(ersion)
	PadNL      bool     `json:"pad_nl,omitempty"`  // the padded values stand on a line of their own (else one blank on each side)
}

type pomProp struct {
	Name  string `json:"name"`
	Val   string `json:"val"`
	CDATA bool   `json:"cdata,omitempty"`
}

type pomProfile struct {
	ID      string    `json:"id"`
	Active  bool      `json:"active,omitempty"` // activeByDefault
	Props   []pomProp `json:"props,omitempty"`
	Deps    []pomDep  `json:"deps,omitempty"`
	Mgmt    []pomDep  `json:"mgmt,omitempty"`
	HasMgmt bool      `json:"has_mgmt,omitempty"`
	PadID   bool      `json:"pad_id,omitempty"` // white space around the text of <id>
}

type pomPlugin struct {
	G       string   `json:"g,omitempty"`
	A       string   `json:"a"`
	V       string   `json:"v,omitempty"`
	Managed bool     `json:"managed"` // under build/pluginManagement/plugins (else build/plugins)
	Deps    []pomDep `json:"deps,omitempty"`
	Config  bool     `json:"config,omitempty"` // a <configuration> block with attributes and a nested <properties>
	Pad     bool     `json:"pad,omitempty"`    // white space around the text of <groupId> and <artifactId>
}

type pomParentRef struct {
	G       string `json:"g"`
	A       string `json:"a"`
	V       string `json:"v"`
	RelPath string `json:"rel_path,omitempty"` // "" = element omitted (default ../pom.xml)
	SelfEnd bool   `json:"self_end,omitempty"` // unused marker kept for layout variety
}

type pomFile struct {
	XMLDecl   bool          `json:"xml_decl,omitempty"`
	NS        bool          `json:"ns,omitempty"`
	Header    string        `json:"header,omitempty"` // comment before <project>
	G         string        `json:"g,omitempty"`      // "" = inherited from the parent
	A         string        `json:"a"`
	V         string        `json:"v,omitempty"`
	Packaging string        `json:"packaging,omitempty"`
	Parent    *pomParentRef `json:"parent,omitempty"`
	Name      string        `json:"name,omitempty"` // raw XML text (may hold entity references / CDATA)
	Desc      string        `json:"desc,omitempty"`
	Modules   []string      `json:"modules,omitempty"`
	Props     []pomProp     `json:"props,omitempty"`
	HasProps  bool          `json:"has_props,omitempty"`
	Deps      []pomDep      `json:"deps,omitempty"`
	HasDeps   bool          `json:"has_deps,omitempty"`
	Mgmt      []pomDep      `json:"mgmt,omitempty"`
	HasMgmt   bool          `json:"has_mgmt,omitempty"`
	Profiles  []pomProfile  `json:"profiles,omitempty"`
	Plugins   []pomPlugin   `json:"plugins,omitempty"`
	Sections  []string      `json:"sections"`                   // order of: meta modules props deps mgmt profiles build
	SecNotes  []string      `json:"sec_notes,omitempty"`        // comment before the i-th section ("" = none)
	PropNote  string        `json:"prop_note,omitempty"`        // comment inside <properties>
	DepsNote  string        `json:"deps_note,omitempty"`        // comment inside <dependencies>
	Indent    string        `json:"indent"`                     // "  " | "    " | "\t"
	BlankLine bool          `json:"blank_line,omitempty"`       // blank line between sections
	NoFinalNL bool          `json:"no_final_newline,omitempty"` // no newline after </project>
	Tail      string        `json:"tail,omitempty"`             // comment after </project>
}

// pomUpdate is one requested update. Name alone addresses every requirement of that
// groupId:artifactId, the direct one and its dependencyManagement twin alike (what
// ConstructPatches and the suggester emit). With Variant the update addresses only the
// requirements groupId:artifactId:Type:Classifier (a Maven requirement key; Type "" = jar),
// so that two variants of one artifact (jar and test-jar, a classifier) can be updated
// together, to the same or to different versions. Only narrows the update to one of the
// twins: "direct" = the requirements outside dependencyManagement, "management" = the
// dependencyManagement requirements.
type pomUpdate struct {
	Name       string `json:"name"` // groupId:artifactId
	To         string `json:"to"`
	Variant    bool   `json:"variant,omitempty"`
	Type       string `json:"type,omitempty"`
	Classifier string `json:"classifier,omitempty"`
	Only       string `json:"only,omitempty"`
}

func normType(t string) string {
	if t == "" {
		return "jar"
	}
	return t
}

// matches: the update addresses the requirement key name:typ:classif.
func (u pomUpdate) matches(name, typ, classif string) bool {
	if u.Name != name {
		return false
	}
	return !u.Variant || (normType(u.Type) == normType(typ) && u.Classifier == classif)
}

// pomUpdateIndex returns the index of the update that addresses the key, or -1.
func pomUpdateIndex(ups []pomUpdate, name, typ, classif string) int {
	for i, u := range ups {
		if u.matches(name, typ, classif) {
			return i
		}
	}
	return -1
}

// checkPomUpdates: no requirement key is addressed by two updates.
func checkPomUpdates(ups []pomUpdate) error {
	for i, a := range ups {
		if a.Only != "" && a.Only != "direct" && a.Only != "management" {
			return fmt.Errorf("update of %s: only=%q", a.Name, a.Only)
		}
		for _, b := range ups[i+1:] {
			if a.Name == b.Name && (!a.Variant || !b.Variant || (normType(a.Type) == normType(b.Type) && a.Classifier == b.Classifier)) {
				return fmt.Errorf("two updates for %s", a.Name)
			}
		}
	}
	return nil
}

// pomAncestor is a local ancestor above the parent (grandparent, great-grandparent).
type pomAncestor struct {
	File pomFile `json:"file"`
	Path string  `json:"path"` // location relative to in/
}

type pomCase struct {
	Child      pomFile       `json:"child"`
	ChildPath  string        `json:"child_path,omitempty"` // location of the manifest relative to in/; "" = app/pom.xml
	Parent     *pomFile      `json:"parent_file,omitempty"`
	ParentPath string        `json:"parent_path,omitempty"` // location of the parent file relative to in/, e.g. "parent/pom.xml" | "pom.xml" | "app/parent-pom.xml"
	Ancestors  []pomAncestor `json:"ancestors,omitempty"`   // the local ancestors above Parent, nearest first
	Updates    []pomUpdate   `json:"updates"`
	OutTree    string        `json:"out_tree,omitempty"` // see c13Out
	OutName    string        `json:"out_name,omitempty"`
}

// outPlaces returns the tree the writer is asked to write to and the places in it of the
// poms of the chain: the manifest at the requested name in its own relative directory, its
// local ancestors at the same place relative to it as in the input tree.
func (c *pomCase) outPlaces() (tree string, rels []string, err error) {
	ch := c.chain()
	tree, rel, err := c13Out{Tree: c.OutTree, Name: c.OutName}.resolve(ch[0].path)
	if err != nil {
		return "", nil, err
	}
	rels = []string{rel}
	for _, f := range ch[1:] {
		if f.path == rel || strings.HasPrefix(f.path, rel+"/") {
			return "", nil, fmt.Errorf("output place %s is the place of the local ancestor %s", rel, f.path)
		}
		rels = append(rels, f.path)
	}
	return tree, rels, nil
}

const pomDefaultChildPath = "app/pom.xml"

// pomChainFile is one pom of the chain manifest -> parent -> grandparent -> ...
type pomChainFile struct {
	file *pomFile
	path string // relative to in/
}

// chain returns the poms of the case: the manifest first, then its local ancestors.
func (c *pomCase) chain() []pomChainFile {
	cp := c.ChildPath
	if cp == "" {
		cp = pomDefaultChildPath
	}
	out := []pomChainFile{{&c.Child, cp}}
	if c.Parent != nil {
		out = append(out, pomChainFile{c.Parent, c.ParentPath})
		for i := range c.Ancestors {
			out = append(out, pomChainFile{&c.Ancestors[i].File, c.Ancestors[i].Path})
		}
	}
	return out
}

// resolveParentPath is Maven's lookup of a local parent: relativePath (default
// ../pom.xml) from the directory of the referring pom, a directory standing for the
// pom.xml in it. It returns the two candidate locations (file form, directory form).
func resolveParentPath(from, rel string) (string, string) {
	if rel == "" {
		rel = "../pom.xml"
	}
	p := path.Join(path.Dir(from), rel)
	return p, path.Join(p, "pom.xml")
}

// checkChain verifies that the case is self-contained: every <parent> reference leads to
// the next file of the chain (location and effective coordinates), every ancestor has
// packaging pom, and the topmost pom has no parent (which would need the network).
func (c *pomCase) checkChain() error {
	if c.Parent == nil && len(c.Ancestors) > 0 {
		return fmt.Errorf("ancestors without a parent file")
	}
	ch := c.chain()
	if len(ch) > 4 {
		return fmt.Errorf("chain of %d local ancestors", len(ch)-1)
	}
	seen := map[string]bool{}
	for i, f := range ch {
		if f.path == "" || f.path != path.Clean(f.path) || strings.HasPrefix(f.path, "../") || strings.HasPrefix(f.path, "/") || seen[f.path] {
			return fmt.Errorf("location %q of pom %d", f.path, i)
		}
		seen[f.path] = true
		for q := range seen {
			// no file of the chain is at the same time a directory of another one
			if strings.HasPrefix(q, f.path+"/") || strings.HasPrefix(f.path, q+"/") {
				return fmt.Errorf("location %q of pom %d is inside %q", f.path, i, q)
			}
		}
	}
	for i, f := range ch {
		ref := f.file.Parent
		if i == len(ch)-1 {
			if ref != nil {
				return fmt.Errorf("parent reference without a local parent file (needs the network)")
			}
			if i > 0 && (f.file.G == "" || f.file.V == "") {
				return fmt.Errorf("topmost pom without groupId/version")
			}
			break
		}
		if ref == nil {
			return fmt.Errorf("pom %d has no <parent> but a local ancestor is given", i)
		}
		up := ch[i+1]
		asFile, asDir := resolveParentPath(f.path, ref.RelPath)
		if up.path != asFile && up.path != asDir {
			return fmt.Errorf("relativePath %q of %s does not lead to %s", ref.RelPath, f.path, up.path)
		}
		if seen[asFile] && up.path != asFile {
			return fmt.Errorf("relativePath %q of %s names another pom of the chain", ref.RelPath, f.path)
		}
		if up.file.Packaging != "pom" {
			return fmt.Errorf("ancestor %s has packaging %q", up.path, up.file.Packaging)
		}
		g, v := up.file.G, up.file.V
		if up.file.Parent != nil {
			if g == "" {
				g = up.file.Parent.G
			}
			if v == "" {
				v = up.file.Parent.V
			}
		}
		if ref.G != g || ref.A != up.file.A || ref.V != v || g == "" || v == "" {
			return fmt.Errorf("<parent> %s:%s:%s of %s is not the project %s:%s:%s at %s", ref.G, ref.A, ref.V, f.path, g, up.file.A, v, up.path)
		}
	}
	return nil
}

// ---------------------------------------------------------------------------------------
// renderer

type pomWriter struct {
	b      bytes.Buffer
	indent string
}

func (w *pomWriter) line(depth int, s string) {
	for i := 0; i < depth; i++ {
		w.b.WriteString(w.indent)
	}
	w.b.WriteString(s)
	w.b.WriteByte('\n')
}

func (w *pomWriter) elem(depth int, name, text string) {
	w.line(depth, "<"+name+">"+text+"</"+name+">")
}

// padded writes an element whose text may have white space around it, which Maven (and
// the reader) ignore: one blank on each side, or the value on a line of its own.
func (w *pomWriter) padded(depth int, name, text string, pad, nl bool) {
	switch {
	case !pad:
		w.elem(depth, name, text)
	case nl:
		w.line(depth, "<"+name+">")
		w.line(depth+1, text)
		w.line(depth, "</"+name+">")
	default:
		w.elem(depth, name, " "+text+" ")
	}
}

func xmlText(s string, cdata bool) string {
	if cdata {
		return "<![CDATA[" + s + "]]>"
	}
	var b bytes.Buffer
	_ = xml.EscapeText(&b, []byte(s))
	return b.String()
}

func (w *pomWriter) dep(depth int, d pomDep) {
	w.line(depth, "<dependency>")
	pad := func(which string) bool { return strings.Contains(d.Pad, which) }
	ver := func() {
		if d.Ver != "" {
			w.padded(depth+1, "version", xmlText(d.Ver, d.VerCDATA), pad("v"), d.PadNL)
		}
	}
	if d.Order == 2 {
		ver()
	}
	w.padded(depth+1, "groupId", d.G, pad("g"), d.PadNL)
	w.padded(depth+1, "artifactId", d.A, pad("a"), d.PadNL)
	if d.Comment != "" {
		w.line(depth+1, "<!-- "+d.Comment+" -->")
	}
	if d.Order == 0 {
		ver()
	}
	if d.Type != "" {
		w.padded(depth+1, "type", d.Type, pad("t"), d.PadNL)
	}
	if d.Classifier != "" {
		w.padded(depth+1, "classifier", d.Classifier, pad("c"), d.PadNL)
	}
	if d.Scope != "" {
		w.elem(depth+1, "scope", d.Scope)
	}
	if d.Optional {
		w.elem(depth+1, "optional", "true")
	}
	if len(d.Excl) > 0 {
		w.line(depth+1, "<exclusions>")
		for _, e := range d.Excl {
			g, a, _ := strings.Cut(e, ":")
			w.line(depth+2, "<exclusion>")
			w.elem(depth+3, "groupId", g)
			w.elem(depth+3, "artifactId", a)
			w.line(depth+2, "</exclusion>")
		}
		w.line(depth+1, "</exclusions>")
	}
	if d.Order == 1 {
		ver()
	}
	w.line(depth, "</dependency>")
}

func (w *pomWriter) deps(depth int, ds []pomDep, note string) {
	if len(ds) == 0 && note == "" {
		w.line(depth, "<dependencies/>")
		return
	}
	w.line(depth, "<dependencies>")
	if note != "" {
		w.line(depth+1, "<!-- "+note+" -->")
	}
	for _, d := range ds {
		w.dep(depth+1, d)
	}
	w.line(depth, "</dependencies>")
}

func (w *pomWriter) mgmt(depth int, ds []pomDep) {
	w.line(depth, "<dependencyManagement>")
	w.deps(depth+1, ds, "")
	w.line(depth, "</dependencyManagement>")
}

func (w *pomWriter) props(depth int, ps []pomProp, note string) {
	w.line(depth, "<properties>")
	if note != "" {
		w.line(depth+1, "<!-- "+note+" -->")
	}
	for _, p := range ps {
		w.elem(depth+1, p.Name, xmlText(p.Val, p.CDATA))
	}
	w.line(depth, "</properties>")
}

func (w *pomWriter) plugin(depth int, p pomPlugin) {
	w.line(depth, "<plugin>")
	if p.G != "" {
		w.padded(depth+1, "groupId", p.G, p.Pad, false)
	}
	w.padded(depth+1, "artifactId", p.A, p.Pad, false)
	if p.V != "" {
		w.elem(depth+1, "version", p.V)
	}
	if p.Config {
		w.line(depth+1, `<configuration combine.self="override">`)
		w.elem(depth+2, "source", "1.8")
		w.line(depth+2, `<compilerArgs combine.children="append">`)
		w.elem(depth+3, "arg", "-Xlint:all &amp; more")
		w.line(depth+2, "</compilerArgs>")
		w.line(depth+2, "<archive><manifestEntries><Built-By>me &lt;me@example.com&gt;</Built-By></manifestEntries></archive>")
		w.line(depth+1, "</configuration>")
	}
	if len(p.Deps) > 0 {
		w.deps(depth+1, p.Deps, "")
	}
	w.line(depth, "</plugin>")
}

func renderPom(f *pomFile) []byte {
	w := &pomWriter{indent: f.Indent}
	if f.XMLDecl {
		w.line(0, `<?xml version="1.0" encoding="UTF-8"?>`)
	}
	if f.Header != "" {
		w.line(0, "<!--\n  "+f.Header+"\n-->")
	}
	if f.NS {
		w.line(0, `<project xmlns="http://maven.apache.org/POM/4.0.0" xmlns:xsi="http://www.w3.org/2001/XMLSchema-instance"`+"\n"+`         xsi:schemaLocation="http://maven.apache.org/POM/4.0.0 http://maven.apache.org/xsd/maven-4.0.0.xsd">`)
	} else {
		w.line(0, "<project>")
	}
	w.elem(1, "modelVersion", "4.0.0")
	if f.Parent != nil {
		w.line(1, "<parent>")
		w.elem(2, "groupId", f.Parent.G)
		w.elem(2, "artifactId", f.Parent.A)
		w.elem(2, "version", f.Parent.V)
		if f.Parent.RelPath != "" {
			w.elem(2, "relativePath", f.Parent.RelPath)
		}
		w.line(1, "</parent>")
	}
	if f.G != "" {
		w.elem(1, "groupId", f.G)
	}
	w.elem(1, "artifactId", f.A)
	if f.V != "" {
		w.elem(1, "version", f.V)
	}
	if f.Packaging != "" {
		w.elem(1, "packaging", f.Packaging)
	}
	for i, s := range f.Sections {
		if f.BlankLine {
			w.b.WriteByte('\n')
		}
		if i < len(f.SecNotes) && f.SecNotes[i] != "" {
			w.line(1, "<!-- "+f.SecNotes[i]+" -->")
		}
		switch s {
		case "meta":
			if f.Name != "" {
				w.elem(1, "name", f.Name)
			}
			if f.Desc != "" {
				w.elem(1, "description", f.Desc)
			}
			w.elem(1, "url", "https://example.com/?a=1&amp;b=2")
		case "modules":
			w.line(1, "<modules>")
			for _, m := range f.Modules {
				w.elem(2, "module", m)
			}
			w.line(1, "</modules>")
		case "props":
			w.props(1, f.Props, f.PropNote)
		case "deps":
			w.deps(1, f.Deps, f.DepsNote)
		case "mgmt":
			w.mgmt(1, f.Mgmt)
		case "profiles":
			w.line(1, "<profiles>")
			for _, p := range f.Profiles {
				w.line(2, "<profile>")
				w.padded(3, "id", p.ID, p.PadID, false)
				if p.Active {
					w.line(3, "<activation>")
					w.elem(4, "activeByDefault", "true")
					w.line(3, "</activation>")
				}
				if len(p.Props) > 0 {
					w.props(3, p.Props, "")
				}
				if len(p.Deps) > 0 {
					w.deps(3, p.Deps, "")
				}
				if p.HasMgmt {
					w.mgmt(3, p.Mgmt)
				}
				w.line(2, "</profile>")
			}
			w.line(1, "</profiles>")
		case "build":
			w.line(1, "<build>")
			var managed, plain []pomPlugin
			for _, p := range f.Plugins {
				if p.Managed {
					managed = append(managed, p)
				} else {
					plain = append(plain, p)
				}
			}
			if len(managed) > 0 {
				w.line(2, "<pluginManagement>")
				w.line(3, "<plugins>")
				for _, p := range managed {
					w.plugin(4, p)
				}
				w.line(3, "</plugins>")
				w.line(2, "</pluginManagement>")
			}
			if len(plain) > 0 {
				w.line(2, "<plugins>")
				for _, p := range plain {
					w.plugin(3, p)
				}
				w.line(2, "</plugins>")
			}
			w.line(1, "</build>")
		}
	}
	w.b.WriteString("</project>")
	if !f.NoFinalNL {
		w.b.WriteByte('\n')
	}
	if f.Tail != "" {
		w.b.WriteString("<!-- " + f.Tail + " -->\n")
	}
	return w.b.Bytes()
}

// ---------------------------------------------------------------------------------------
// token-level reader (encoding/xml)

const (
	xElem = iota
	xText
	xComment
	xProcInst
	xDirective
)

type xnode struct {
	kind   int
	name   xml.Name
	attrs  []xml.Attr
	text   string
	kids   []*xnode
	parent *xnode
}

func parseXML(b []byte) (*xnode, error) {
	d := xml.NewDecoder(bytes.NewReader(b))
	root := &xnode{kind: xElem, name: xml.Name{Local: "#document"}}
	cur := root
	add := func(n *xnode) {
		n.parent = cur
		if n.kind == xText && len(cur.kids) > 0 && cur.kids[len(cur.kids)-1].kind == xText {
			cur.kids[len(cur.kids)-1].text += n.text // CDATA and plain text are one text
			return
		}
		cur.kids = append(cur.kids, n)
	}
	for {
		tok, err := d.Token()
		if err == io.EOF {
			break
		}
		if err != nil {
			return nil, err
		}
		switch t := tok.(type) {
		case xml.StartElement:
			n := &xnode{kind: xElem, name: t.Name, attrs: append([]xml.Attr(nil), t.Attr...)}
			add(n)
			cur = n
		case xml.EndElement:
			if cur.parent == nil {
				return nil, fmt.Errorf("unbalanced end element %s", t.Name.Local)
			}
			cur = cur.parent
		case xml.CharData:
			add(&xnode{kind: xText, text: string(t)})
		case xml.Comment:
			add(&xnode{kind: xComment, text: string(t)})
		case xml.ProcInst:
			add(&xnode{kind: xProcInst, text: t.Target + " " + string(t.Inst)})
		case xml.Directive:
			add(&xnode{kind: xDirective, text: string(t)})
		}
	}
	if cur != root {
		return nil, fmt.Errorf("unclosed element %s", cur.name.Local)
	}
	return root, nil
}

func (n *xnode) child(local string) *xnode {
	if n == nil {
		return nil
	}
	for _, k := range n.kids {
		if k.kind == xElem && k.name.Local == local {
			return k
		}
	}
	return nil
}

func (n *xnode) children(local string) []*xnode {
	if n == nil {
		return nil
	}
	var out []*xnode
	for _, k := range n.kids {
		if k.kind == xElem && (local == "*" || k.name.Local == local) {
			out = append(out, k)
		}
	}
	return out
}

func (n *xnode) textOf() string {
	if n == nil {
		return ""
	}
	var s string
	for _, k := range n.kids {
		if k.kind == xText {
			s += k.text
		}
	}
	return strings.TrimSpace(s)
}

// isPadded: the element's text has white space around it.
func (n *xnode) isPadded() bool {
	if n == nil {
		return false
	}
	var s string
	for _, k := range n.kids {
		if k.kind == xText {
			s += k.text
		}
	}
	return s != strings.TrimSpace(s)
}

func (n *xnode) path() string {
	if n == nil || n.parent == nil {
		return ""
	}
	idx := 0
	for _, k := range n.parent.kids {
		if k == n {
			break
		}
		if k.kind == n.kind && k.name == n.name {
			idx++
		}
	}
	nm := n.name.Local
	switch n.kind {
	case xText:
		nm = "#text"
	case xComment:
		nm = "#comment"
	case xProcInst:
		nm = "#pi"
	case xDirective:
		nm = "#directive"
	}
	return fmt.Sprintf("%s/%s[%d]", n.parent.path(), nm, idx)
}

// compareTrees reports the first difference between two documents; the text content of
// the elements in mayChange (nodes of a) is exempt.
func compareTrees(a, b *xnode, mayChange map[*xnode]bool) error {
	if a.kind != b.kind {
		return fmt.Errorf("%s: node kind differs", a.path())
	}
	switch a.kind {
	case xText, xComment, xProcInst, xDirective:
		if a.text != b.text {
			return fmt.Errorf("%s: %q became %q", a.path(), a.text, b.text)
		}
		return nil
	}
	if a.name != b.name {
		return fmt.Errorf("%s: element became <%s> (namespace %q)", a.path(), b.name.Local, b.name.Space)
	}
	if len(a.attrs) != len(b.attrs) {
		return fmt.Errorf("%s: attributes %v became %v", a.path(), a.attrs, b.attrs)
	}
	for i := range a.attrs {
		if a.attrs[i] != b.attrs[i] {
			return fmt.Errorf("%s: attributes %v became %v", a.path(), a.attrs, b.attrs)
		}
	}
	if mayChange[a] {
		for _, k := range b.kids {
			if k.kind != xText {
				return fmt.Errorf("%s: rewritten element has non-text content", a.path())
			}
		}
		return nil
	}
	if len(a.kids) != len(b.kids) {
		return fmt.Errorf("%s: %d child nodes became %d (%s | %s)", a.path(), len(a.kids), len(b.kids), kidSummary(a), kidSummary(b))
	}
	for i := range a.kids {
		if err := compareTrees(a.kids[i], b.kids[i], mayChange); err != nil {
			return err
		}
	}
	return nil
}

func kidSummary(n *xnode) string {
	var s []string
	for _, k := range n.kids {
		switch k.kind {
		case xElem:
			s = append(s, "<"+k.name.Local+">")
		case xComment:
			s = append(s, "<!---->")
		}
	}
	return strings.Join(s, "")
}

// ---------------------------------------------------------------------------------------
// independent reading of dependency slots and property definitions

type pomSlot struct {
	file     int    // 0 the manifest, 1 its parent, 2 the grandparent, ...
	origin   string // "" | management | profile@ID | profile@ID@management | plugin@g:a
	profile  string
	active   bool // profile is activeByDefault
	visible  bool // part of the effective model the reader resolves (main sections, active profiles, parent)
	g, a     string
	typ      string
	classif  string
	scope    string
	optional string
	excl     []maven.Exclusion
	verNode  *xnode
	verLit   string
	padded   bool // white space around the text of the declaration's coordinates, or of the profile id / plugin coordinates that locate it
}

func (s *pomSlot) name() string { return s.g + ":" + s.a }

// isMgmt: the declaration stands in a <dependencyManagement> section.
func (s *pomSlot) isMgmt() bool {
	return s.origin == "management" || strings.HasSuffix(s.origin, "@management")
}

// sameKey: the same groupId:artifactId:type:classifier.
func (s *pomSlot) sameKey(o *pomSlot) bool {
	return s.g == o.g && s.a == o.a && normType(s.typ) == normType(o.typ) && s.classif == o.classif
}

// managesVersionless: s is a dependencyManagement entry of the effective model that gives
// a version-less declaration outside dependencyManagement (same key) its version.
func (an *pomAnalysis) managesVersionless(s *pomSlot) bool {
	if !s.isMgmt() || !s.visible || s.verNode == nil {
		return false
	}
	for _, x := range an.slots {
		if x.visible && x.verNode == nil && !x.isMgmt() && x.sameKey(s) {
			return true
		}
	}
	return false
}

// pomUpdateHits: the declaration s carries the version that the update u asks to change.
// An update of the direct requirement of a version-less declaration can only be applied
// where its version is declared: in the dependencyManagement entry that manages it.
func pomUpdateHits(an *pomAnalysis, u pomUpdate, s *pomSlot) bool {
	if s.verNode == nil || !u.matches(s.name(), s.typ, s.classif) {
		return false
	}
	switch u.Only {
	case "":
		return true
	case "management":
		return s.isMgmt()
	case "direct":
		return !s.isMgmt() || an.managesVersionless(s)
	}
	return false
}

// sourceSlot returns the declaration of the effective model that a requirement the reader
// lists (key name:typ:classif, from dependencyManagement or not) takes its version from.
func (an *pomAnalysis) sourceSlot(name, typ, classif string, mgmt bool) *pomSlot {
	for _, wantMgmt := range []bool{false, true} {
		if mgmt && !wantMgmt {
			continue
		}
		for _, s := range an.slots {
			if s.visible && s.verNode != nil && s.isMgmt() == wantMgmt && s.name() == name && normType(s.typ) == normType(typ) && s.classif == classif {
				return s
			}
		}
	}
	return nil
}

type pomPropDef struct {
	file    int
	profile string
	active  bool
	name    string
	node    *xnode
	val     string
}

type pomAnalysis struct {
	roots []*xnode // document nodes: the manifest, then its local ancestors
	slots []*pomSlot
	defs  []*pomPropDef
}

func (an *pomAnalysis) scan(file int, doc *xnode) error {
	proj := doc.child("project")
	if proj == nil {
		return fmt.Errorf("no <project>")
	}
	addDeps := func(parent *xnode, origin, profile string, active, visible, scopePadded bool) {
		for _, d := range parent.child("dependencies").children("dependency") {
			s := &pomSlot{file: file, origin: origin, profile: profile, active: active, visible: visible,
				padded: scopePadded || d.child("groupId").isPadded() || d.child("artifactId").isPadded() || d.child("type").isPadded() || d.child("classifier").isPadded(),
				g: d.child("groupId").textOf(), a: d.child("artifactId").textOf(), typ: d.child("type").textOf(),
				classif: d.child("classifier").textOf(), scope: d.child("scope").textOf(), optional: d.child("optional").textOf()}
			for _, e := range d.child("exclusions").children("exclusion") {
				s.excl = append(s.excl, maven.Exclusion{GroupID: maven.String(e.child("groupId").textOf()), ArtifactID: maven.String(e.child("artifactId").textOf())})
			}
			if v := d.child("version"); v != nil {
				s.verNode, s.verLit = v, v.textOf()
			}
			an.slots = append(an.slots, s)
		}
	}
	addProps := func(parent *xnode, profile string, active bool) {
		for _, p := range parent.child("properties").children("*") {
			an.defs = append(an.defs, &pomPropDef{file: file, profile: profile, active: active, name: p.name.Local, node: p, val: p.textOf()})
		}
	}
	addProps(proj, "", false)
	addDeps(proj, "", "", false, true, false)
	if dm := proj.child("dependencyManagement"); dm != nil {
		addDeps(dm, "management", "", false, true, false)
	}
	for _, p := range proj.child("profiles").children("profile") {
		id := p.child("id").textOf()
		active := p.child("activation").child("activeByDefault").textOf() == "true"
		vis := active && file == 0 // the reader merges only the child's default profiles
		addProps(p, id, active)
		idPadded := p.child("id").isPadded()
		addDeps(p, "profile@"+id, id, active, vis, idPadded)
		if dm := p.child("dependencyManagement"); dm != nil {
			addDeps(dm, "profile@"+id+"@management", id, active, vis, idPadded)
		}
	}
	for _, p := range proj.child("build").child("pluginManagement").child("plugins").children("plugin") {
		addDeps(p, "plugin@"+p.child("groupId").textOf()+":"+p.child("artifactId").textOf(), "", false, false, p.child("groupId").isPadded() || p.child("artifactId").isPadded())
	}
	return nil
}

// effDef is the property definition that is in force for a slot (Maven: profile
// properties over project properties over inherited ones).
func (an *pomAnalysis) effDef(s *pomSlot, name string) *pomPropDef {
	var found *pomPropDef
	pick := func(ok func(d *pomPropDef) bool) bool {
		for _, d := range an.defs {
			if d.name == name && ok(d) {
				found = d // the last definition in a block wins
			}
		}
		return found != nil
	}
	if s.profile != "" && pick(func(d *pomPropDef) bool { return d.file == s.file && d.profile == s.profile }) {
		return found
	}
	if s.visible && pick(func(d *pomPropDef) bool { return d.file == 0 && d.profile != "" && d.active }) {
		return found
	}
	// project level: the manifest's own definition, else the one of the nearest ancestor
	for f := range an.roots {
		if pick(func(d *pomPropDef) bool { return d.file == f && d.profile == "" }) {
			return found
		}
	}
	return nil
}

// builtin resolves the model properties the generator uses: project.version is the
// version of the project being read (the child), inherited from its parent when absent.
func (an *pomAnalysis) builtin(name string) (string, bool) {
	if name != "project.version" || len(an.roots) == 0 {
		return "", false
	}
	proj := an.roots[0].child("project")
	if v := proj.child("version").textOf(); v != "" {
		return v, true
	}
	if v := proj.child("parent").child("version").textOf(); v != "" {
		return v, true
	}
	return "", false
}

func placeholders(lit string) []string {
	var out []string
	for {
		i := strings.Index(lit, "${")
		if i < 0 {
			return out
		}
		j := strings.Index(lit[i:], "}")
		if j < 0 {
			return out
		}
		out = append(out, lit[i+2:i+j])
		lit = lit[i+j+1:]
	}
}

func literalLen(lit string) int {
	n := len(lit)
	for _, p := range placeholders(lit) {
		n -= len(p) + 3
	}
	return n
}

func (an *pomAnalysis) interp(s *pomSlot) (string, error) {
	lit := s.verLit
	var b strings.Builder
	for {
		i := strings.Index(lit, "${")
		if i < 0 {
			break
		}
		j := strings.Index(lit[i:], "}")
		if j < 0 {
			break
		}
		b.WriteString(lit[:i])
		name := lit[i+2 : i+j]
		if d := an.effDef(s, name); d != nil {
			b.WriteString(d.val)
		} else if v, ok := an.builtin(name); ok {
			b.WriteString(v)
		} else {
			return "", fmt.Errorf("property %s of %s is not defined", name, s.name())
		}
		lit = lit[i+j+1:]
	}
	b.WriteString(lit)
	return b.String(), nil
}

// analysePom reads the documents of a chain: the manifest first, then its local ancestors.
func analysePom(docs [][]byte) (*pomAnalysis, error) {
	an := &pomAnalysis{}
	for i, b := range docs {
		doc, err := parseXML(b)
		if err != nil {
			return nil, fmt.Errorf("%s: %w", pomFileName(i), err)
		}
		an.roots = append(an.roots, doc)
		if err := an.scan(i, doc); err != nil {
			return nil, fmt.Errorf("%s: %w", pomFileName(i), err)
		}
	}
	return an, nil
}

func pomFileName(file int) string {
	switch file {
	case 0:
		return "pom.xml"
	case 1:
		return "parent pom"
	case 2:
		return "grandparent pom"
	}
	return fmt.Sprintf("ancestor %d pom", file)
}

// ---------------------------------------------------------------------------------------
// known-finding classes (predicates over the case, evaluated on the rendered documents)

// pomUpdateClasses returns the known-finding classes that the update of one package,
// as part of the update set ups, falls in.
func pomUpdateClasses(an *pomAnalysis, ups []pomUpdate, u pomUpdate) []string {
	newV := u.To
	mine := func(s *pomSlot) bool { return u.matches(s.name(), s.typ, s.classif) }
	set := map[string]bool{}
	// the same groupId:artifactId:type:classifier carries a version in several declarations
	// (variants of one artifact that differ in type or classifier are different keys)
	keys := map[string]int{}
	for _, s := range an.slots {
		if mine(s) && s.verNode != nil {
			keys[normType(s.typ)+"|"+s.classif]++
		}
	}
	for _, n := range keys {
		if n > 1 {
			set["c13.duplicate_key_declarations"] = true
		}
	}
	for _, s := range an.slots {
		if !mine(s) || s.verNode == nil {
			continue
		}
		// white space around the coordinates of the declaration, or around the profile id /
		// plugin coordinates that locate it
		if s.padded {
			set["c13.padded_coordinates"] = true
		}
		phs := placeholders(s.verLit)
		if len(phs) == 0 {
			continue
		}
		// new version shorter than the literal text around the placeholders
		if len(newV) < literalLen(s.verLit) {
			set["c13.short_version_prefix"] = true
		}
		for _, p := range phs {
			d := an.effDef(s, p)
			if d == nil {
				// a model property (project.version): there is no definition to rewrite
				set["c13.property_defined_elsewhere"] = true
				continue
			}
			// the definition in force lives in another file, or in another scope, than the
			// place the dependency is declared in
			if d.file != s.file || (d.profile != "" && d.profile != s.profile) {
				set["c13.property_defined_elsewhere"] = true
			}
			// the same definition is in force for a dependency that is not updated
			for _, o := range an.slots {
				if o == s || o.verNode == nil || mine(o) {
					continue
				}
				for _, q := range placeholders(o.verLit) {
					if an.effDef(o, q) == d {
						if pomUpdateIndex(ups, o.name(), o.typ, o.classif) < 0 {
							set["c13.shared_property"] = true
						}
					}
				}
			}
		}
	}
	var out []string
	for k := range set {
		out = append(out, k)
	}
	sort.Strings(out)
	return out
}

// prologHasProjectLiteral: text before the root element contains "<project".
func prologHasProjectLiteral(doc *xnode) bool {
	if doc == nil {
		return false
	}
	for _, k := range doc.kids {
		if k.kind == xElem {
			return false
		}
		if strings.Contains(k.text, "<project") {
			return true
		}
	}
	return false
}

// pomDocClasses returns the known-finding classes of the documents themselves.
func pomDocClasses(an *pomAnalysis) []string {
	for _, r := range an.roots {
		if prologHasProjectLiteral(r) {
			return []string{"c13.project_literal_in_prolog"}
		}
	}
	return nil
}

// pomClasses returns the known-finding classes the whole update set falls in.
func pomClasses(an *pomAnalysis, ups []pomUpdate) []string {
	set := map[string]bool{}
	for _, c := range pomDocClasses(an) {
		set[c] = true
	}
	for _, u := range ups {
		for _, c := range pomUpdateClasses(an, ups, u) {
			set[c] = true
		}
	}
	var out []string
	for k := range set {
		out = append(out, k)
	}
	sort.Strings(out)
	return out
}

// ---------------------------------------------------------------------------------------
// property

func mavenReqKey(r resolve.RequirementVersion) string {
	t, _ := r.Type.GetAttr(dep.MavenArtifactType)
	c, _ := r.Type.GetAttr(dep.MavenClassifier)
	return r.Name + "|" + t + "|" + c
}

// write renders the poms of the chain into the workspace and returns their bytes (the
// manifest first). The places the writer is expected to write to are registered as well,
// so that whatever a case leaves there is removed before the next one.
func (c *pomCase) write(ws *workspace) (docs [][]byte, err error) {
	ch := c.chain()
	tree, rels, err := c.outPlaces()
	if err != nil {
		return nil, err
	}
	inputs := map[string]bool{}
	for _, f := range ch {
		inputs["in/"+f.path] = true
	}
	if err = ws.reset(inputs); err != nil {
		return
	}
	for i, f := range ch {
		b := renderPom(f.file)
		if err = ws.put("in/"+f.path, b); err != nil {
			return
		}
		ws.files[tree+"/"+rels[i]] = true
		ws.files[tree+"/"+f.path] = true // the same tree under the pom's own name
		docs = append(docs, b)
	}
	return
}

func propC13Pom(c *pomCase) (ev.Outcome, error) {
	o := ev.Outcome{Classes: []string{"pom"}}
	if err := c.checkChain(); err != nil {
		return o, fmt.Errorf("bad case: %v", err)
	}
	chain := c.chain()
	pomChildPath := chain[0].path
	outTree, outRels, err := c.outPlaces()
	if err != nil {
		return o, fmt.Errorf("bad case: %v", err)
	}
	ws, err := c13Workspace()
	if err != nil {
		return o, fmt.Errorf("harness: %v", err)
	}
	dir := ws.root
	docsIn, err := c.write(ws)
	if err != nil {
		return o, fmt.Errorf("harness: %v", err)
	}
	childIn := docsIn[0]
	an, err := analysePom(docsIn)
	if err != nil {
		return o, fmt.Errorf("bad case: generated pom.xml does not tokenise: %v", err)
	}
	fsys := scalibrfs.DirFS(filepath.Join(dir, "in"))
	reqsIn, err := verifhooks.ReadManifest(resolve.Maven, fsys, pomChildPath)
	if err != nil {
		return o, fmt.Errorf("bad case: generated pom.xml is not readable: %v\n%s", err, childIn)
	}

	// cross-check of the harness's own reading against the reader for visible slots
	inVer := map[*pomSlot]string{}
	for _, s := range an.slots {
		if s.verNode == nil {
			continue
		}
		v, err := an.interp(s)
		if err != nil {
			return o, fmt.Errorf("bad case: %v", err)
		}
		inVer[s] = v
	}

	// the update list, built the way ConstructPatches (FixVulns) or the Maven suggester
	// (Update) build it
	if err := checkPomUpdates(c.Updates); err != nil {
		return o, fmt.Errorf("bad case: %v", err)
	}
	reqAttrs := func(r resolve.RequirementVersion) (typ, classif string, mgmt bool) {
		typ, _ = r.Type.GetAttr(dep.MavenArtifactType)
		classif, _ = r.Type.GetAttr(dep.MavenClassifier)
		org, _ := r.Type.GetAttr(dep.MavenDependencyOrigin)
		return typ, classif, org == "management"
	}
	// updOf: the update that addresses the key of a declaration
	updOf := func(s *pomSlot) (pomUpdate, bool) {
		if i := pomUpdateIndex(c.Updates, s.name(), s.typ, s.classif); i >= 0 {
			return c.Updates[i], true
		}
		return pomUpdate{}, false
	}
	var ups []result.PackageUpdate
	oldReqs := map[string]resolve.RequirementVersion{}
	for _, r := range reqsIn {
		oldReqs[mavenReqKey(r.Req)] = r.Req
	}
	addressed := make([]bool, len(c.Updates)) // the update led to at least one PackageUpdate
	for _, r := range reqsIn {
		typ, classif, mgmt := reqAttrs(r.Req)
		ui := pomUpdateIndex(c.Updates, r.Req.Name, typ, classif)
		if ui < 0 {
			continue
		}
		u := c.Updates[ui]
		if (u.Only == "direct" && mgmt) || (u.Only == "management" && !mgmt) {
			continue
		}
		newV := u.To
		old := oldReqs[mavenReqKey(r.Req)]
		if old.Version == newV {
			return o, fmt.Errorf("bad case: update of %s to its current version", r.Req.Name)
		}
		direct := false
		for _, x := range reqsIn {
			if mavenReqKey(x.Req) == mavenReqKey(r.Req) {
				if org, _ := x.Req.Type.GetAttr(dep.MavenDependencyOrigin); org != "management" {
					direct = true
				}
			}
		}
		pu := result.PackageUpdate{Name: r.Req.Name, VersionFrom: old.Version, VersionTo: newV, Type: old.Type.Clone(), Transitive: !direct}
		if u.Only != "" {
			// one twin only: the requirement as the reader lists it
			pu.VersionFrom, pu.Type = r.Req.Version, r.Req.Type.Clone()
		}
		ups = append(ups, pu)
		addressed[ui] = true
	}
	// slotHit: the declarations that carry a version and are addressed by an update
	slotHit := map[*pomSlot]bool{}
	for _, s := range an.slots {
		u, ok := updOf(s)
		if !ok || !pomUpdateHits(an, u, s) {
			continue
		}
		ui := pomUpdateIndex(c.Updates, s.name(), s.typ, s.classif)
		newV := u.To
		if s.visible {
			if !addressed[ui] {
				return o, fmt.Errorf("harness: %s is declared in the effective model but the reader does not list it (or the update addresses no requirement)", s.name())
			}
			slotHit[s] = true
			continue
		}
		// Declarations outside the effective model (inactive profiles, pluginManagement
		// plugins) are only reached by the Update path: the suggester proposes an update for
		// those of the manifest itself (not of a parent POM: OriginalDependency looks at the
		// base project's own declarations) whose version is literal.
		if s.file >= 1 || strings.Contains(s.verLit, "${") {
			if !addressed[ui] {
				return o, fmt.Errorf("bad case: update of %s (%s, declared %q), which no caller addresses", s.name(), originName(s), s.verLit)
			}
			continue
		}
		if s.verLit == newV {
			return o, fmt.Errorf("bad case: update of %s to its current version", s.name())
		}
		slotHit[s] = true
		d := maven.Dependency{GroupID: maven.String(s.g), ArtifactID: maven.String(s.a), Type: maven.String(s.typ), Classifier: maven.String(s.classif), Scope: maven.String(s.scope), Exclusions: s.excl}
		if d.Scope == "test" {
			d.Scope = ""
		}
		origin := ""
		if strings.HasSuffix(s.origin, "@management") {
			origin = "management"
		}
		ups = append(ups, result.PackageUpdate{Name: s.name(), VersionFrom: s.verLit, VersionTo: newV, Type: resolve.MavenDepType(d, origin)})
		addressed[ui] = true
	}
	for i, u := range c.Updates {
		if !addressed[i] {
			return o, fmt.Errorf("bad case: update for %s (type %q classifier %q only %q) which is not a requirement of the file", u.Name, u.Type, u.Classifier, u.Only)
		}
	}
	sort.SliceStable(ups, func(i, j int) bool {
		a, b := ups[i], ups[j]
		if a.Name != b.Name {
			return a.Name < b.Name
		}
		if a.VersionFrom != b.VersionFrom {
			return a.VersionFrom < b.VersionFrom
		}
		return a.Type.Compare(b.Type) < 0
	})
	var dedup []result.PackageUpdate
	for i, u := range ups {
		if i > 0 && ups[i-1].Name == u.Name && ups[i-1].VersionFrom == u.VersionFrom && ups[i-1].VersionTo == u.VersionTo && ups[i-1].Type.Compare(u.Type) == 0 {
			continue
		}
		dedup = append(dedup, u)
	}
	ups = dedup

	outRoot := filepath.Join(dir, filepath.FromSlash(outTree))
	outFile := outTree + "/" + outRels[0]
	werr := verifhooks.WriteManifest(resolve.Maven, fsys, pomChildPath, ups, filepath.Join(outRoot, filepath.FromSlash(outRels[0])))
	if werr != nil {
		if len(ups) == 0 {
			return o, fmt.Errorf("Write with no updates fails: %v", werr)
		}
		o.Classes = append(o.Classes, "pom_write_error")
		return o, nil
	}
	// every pom of the chain is written: the manifest at the output path, its local ancestors
	// at the same place relative to it as before
	var docsOut [][]byte
	for i, f := range chain {
		b, err := ws.output(outTree + "/" + outRels[i])
		if err != nil {
			if i == 0 {
				return o, fmt.Errorf("Write returned nil but there is no file at the output path %s: %s", outFile, ws.rel(err))
			}
			return o, fmt.Errorf("Write returned nil (updates %s) but the local %s %s was not written at %s/%s, its place relative to the output path %s: %s", describeUpdates(ups), pomFileName(i), f.path, outTree, outRels[i], outFile, ws.rel(err))
		}
		docsOut = append(docsOut, b)
	}
	// a pom whose output place is another path than its own is left alone
	for i, f := range chain {
		if outTree+"/"+outRels[i] == "in/"+f.path {
			continue
		}
		if now, err := ws.output("in/" + f.path); err != nil || !bytes.Equal(now, docsIn[i]) {
			return o, fmt.Errorf("Write to %s (updates %s) modified the original %s in/%s (err=%v): %s", outFile, describeUpdates(ups), pomFileName(i), f.path, err, firstDiff(docsIn[i], now))
		}
	}
	anOut, err := analysePom(docsOut)
	if err != nil {
		return o, fmt.Errorf("written pom.xml does not tokenise: %v", err)
	}

	// (3) preservation: same token tree; only the text of addressed <version> elements and
	// of the property definitions in force for them may differ.
	may := map[*xnode]bool{}
	for _, s := range an.slots {
		if !slotHit[s] {
			continue
		}
		may[s.verNode] = true
		for _, p := range placeholders(s.verLit) {
			if d := an.effDef(s, p); d != nil {
				may[d.node] = true
			}
		}
	}
	// A pom of the chain in which nothing is addressed has no exempt node: it has to come
	// out as the same token tree.
	touched := make([]bool, len(chain))
	for _, s := range an.slots {
		if !slotHit[s] {
			continue
		}
		touched[s.file] = true
		for _, p := range placeholders(s.verLit) {
			if d := an.effDef(s, p); d != nil {
				touched[d.file] = true
			}
		}
	}
	for f := range chain {
		if err := compareTrees(an.roots[f], anOut.roots[f], may); err != nil {
			which := "pom.xml"
			if f > 0 {
				which = pomFileName(f) + " " + chain[f].path
			}
			if !touched[f] {
				which += ", in which no requirement is addressed,"
			}
			return o, fmt.Errorf("%s not preserved (updates %s): %v", which, describeUpdates(ups), err)
		}
		if !touched[f] && !sameTokens(docsIn[f], docsOut[f]) {
			return o, fmt.Errorf("harness: trees of %s equal but token sequences differ", chain[f].path)
		}
	}

	// (2) every declared requirement, as this harness reads it (all sections, inactive
	// profiles and plugin dependencies included): addressed ones carry the new version,
	// all others their old one.
	if len(anOut.slots) != len(an.slots) {
		return o, fmt.Errorf("dependency declarations: %d before, %d after", len(an.slots), len(anOut.slots))
	}
	for i, s := range an.slots {
		so := anOut.slots[i]
		if s.verNode == nil {
			if so.verNode != nil {
				return o, fmt.Errorf("%s gained a <version> element", s.name())
			}
			continue
		}
		got, err := anOut.interp(so)
		if err != nil {
			return o, fmt.Errorf("after the update: %v", err)
		}
		want := inVer[s]
		if slotHit[s] {
			u, _ := updOf(s)
			want = u.To
		}
		if got != want {
			if slotHit[s] {
				return o, fmt.Errorf("Write returned nil for %s but %s (%s, declared %q) now requires %q, want %q", describeUpdates(ups), s.name(), originName(s), s.verLit, got, want)
			}
			return o, fmt.Errorf("updates %s changed a requirement that was not addressed: %s (%s, declared %q) required %q, now %q", describeUpdates(ups), s.name(), originName(s), s.verLit, want, got)
		}
	}

	// (2) the same through the reader: original requirement list with the versions substituted.
	reqsOut, err := verifhooks.ReadManifest(resolve.Maven, scalibrfs.DirFS(outRoot), outRels[0])
	if err != nil {
		return o, fmt.Errorf("written pom.xml (%s) is not readable: %v", outFile, err)
	}
	exp := make([]verifhooks.Requirement, len(reqsIn))
	copy(exp, reqsIn)
	for i := range exp {
		typ, classif, mgmt := reqAttrs(exp[i].Req)
		ui := pomUpdateIndex(c.Updates, exp[i].Req.Name, typ, classif)
		if ui < 0 {
			continue
		}
		// the requirement changes when the declaration it takes its version from is addressed
		if src := an.sourceSlot(exp[i].Req.Name, typ, classif, mgmt); src == nil || slotHit[src] {
			exp[i].Req.Version = c.Updates[ui].To
		}
	}
	if w, g := reqMultiset(exp), reqMultiset(reqsOut); strings.Join(w, "\n") != strings.Join(g, "\n") {
		return o, fmt.Errorf("Write returned nil for %s but re-reading does not give the requested requirements: %s", describeUpdates(ups), diffStrings(w, g))
	}

	// evidence
	o.NonTrivial = len(ups) > 0
	cls := map[string]bool{}
	cls["pom_"+c13Out{Tree: c.OutTree, Name: c.OutName}.class()] = true
	if c.Parent != nil {
		cls["pom_local_parent_"+c13Out{Tree: c.OutTree, Name: c.OutName}.class()] = true
	}
	if len(ups) == 0 {
		cls["pom_no_updates"] = true
	}
	if len(c.Updates) >= 2 {
		cls["pom_updates_ge2"] = true
	}
	if c.Parent != nil {
		cls["pom_local_parent"] = true
		cls[fmt.Sprintf("pom_chain_depth_%d", len(chain)-1)] = true
		inheritG, inheritV := false, false
		for i := 1; i < len(chain); i++ {
			f := chain[i].file
			if f.G == "" {
				inheritG = true
			}
			if f.V == "" {
				inheritV = true
			}
			if len(f.Deps) > 0 && i >= 2 {
				cls["pom_ancestor_declares_dependencies"] = true
			}
			if len(f.Mgmt) > 0 && i >= 2 {
				cls["pom_ancestor_declares_management"] = true
			}
		}
		if inheritG {
			cls["pom_parent_inherits_group"] = true
		}
		if inheritV {
			cls["pom_parent_inherits_version"] = true
		}
		if inheritG && inheritV {
			cls["pom_parent_inherits_group_and_version"] = true
		}
		for i := 0; i+1 < len(chain); i++ {
			ref := chain[i].file.Parent
			_, asDir := resolveParentPath(chain[i].path, ref.RelPath)
			lvl := "parent"
			if i > 0 {
				lvl = "ancestor"
			}
			switch {
			case ref.RelPath == "":
				cls["pom_"+lvl+"_at_default_path"] = true
			case chain[i+1].path == asDir:
				cls["pom_"+lvl+"_relpath_directory"] = true
			default:
				cls["pom_"+lvl+"_relpath_file"] = true
			}
		}
		for f := 1; f < len(chain); f++ {
			if touched[f] {
				cls[fmt.Sprintf("pom_changed_ancestor_%d", f)] = true
			} else if len(ups) > 0 {
				cls["pom_unchanged_ancestor_with_updates"] = true
			}
		}
		if len(ups) > 0 && !touched[0] {
			cls["pom_manifest_unchanged_with_updates"] = true
		}
	}
	if c.Child.NS {
		cls["pom_namespaced"] = true
	}
	// white space around identifying text, and duplicate declarations in ancestors' scopes
	for i, f := range chain {
		var all []pomDep
		all = append(append(all, f.file.Deps...), f.file.Mgmt...)
		for _, p := range f.file.Profiles {
			all = append(append(all, p.Deps...), p.Mgmt...)
			if p.PadID {
				cls["pom_padded_profile_id"] = true
			}
			if i > 0 && strings.HasPrefix(p.ID, "dup-") {
				cls["pom_duplicate_in_ancestor_profile"] = true
			}
		}
		for _, p := range f.file.Plugins {
			all = append(all, p.Deps...)
			if p.Pad {
				cls["pom_padded_plugin_coordinates"] = true
			}
			if i > 0 && strings.HasPrefix(p.A, "dup-maven-plugin") {
				cls["pom_duplicate_in_ancestor_plugin"] = true
			}
		}
		for _, d := range all {
			if strings.ContainsAny(d.Pad, "gatc") {
				cls["pom_padded_dependency_coordinates"] = true
				if i > 0 {
					cls["pom_padded_dependency_coordinates_in_ancestor"] = true
				}
			}
			if strings.Contains(d.Pad, "v") && d.Ver != "" {
				cls["pom_padded_version"] = true
			}
			if d.Pad != "" && d.PadNL {
				cls["pom_padded_value_on_own_line"] = true
			}
		}
	}
	// variants of one artifact: declarations that share groupId:artifactId and differ in
	// type and/or classifier
	{
		keysOf := map[string]map[string]bool{}    // name -> keys declared
		hitKeys := map[string]map[string]string{} // name -> key -> requested version
		for _, s := range an.slots {
			k := normType(s.typ) + "|" + s.classif
			if keysOf[s.name()] == nil {
				keysOf[s.name()] = map[string]bool{}
			}
			keysOf[s.name()][k] = true
			if slotHit[s] {
				if hitKeys[s.name()] == nil {
					hitKeys[s.name()] = map[string]string{}
				}
				u, _ := updOf(s)
				hitKeys[s.name()][k] = u.To
			}
		}
		for _, s := range an.slots {
			if len(keysOf[s.name()]) < 2 {
				continue
			}
			cls["pom_variant_declarations"] = true
			switch {
			case s.isMgmt():
				cls["pom_variant_in_management"] = true
			case s.profile != "":
				cls["pom_variant_in_profile"] = true
			case s.file == 0 && s.origin == "":
				cls["pom_variant_in_dependencies"] = true
			}
			if s.verNode == nil {
				cls["pom_variant_versionless_managed"] = true
			}
			hk := hitKeys[s.name()]
			switch {
			case len(hk) >= 2:
				cls["pom_upd_variants_together"] = true
				vs := map[string]bool{}
				for _, v := range hk {
					vs[v] = true
				}
				if len(vs) == 1 {
					cls["pom_upd_variants_together_same_version"] = true
				} else {
					cls["pom_upd_variants_together_different_versions"] = true
				}
				if u, _ := updOf(s); !u.Variant {
					cls["pom_upd_variants_by_one_name_update"] = true
				}
			case len(hk) == 1:
				cls["pom_upd_one_variant_only"] = true
			}
		}
	}
	for s := range slotHit {
		if s.padded {
			cls["pom_upd_padded_coordinates"] = true
		}
		if s.verNode.isPadded() {
			cls["pom_upd_padded_version"] = true
		}
	}
	for _, s := range an.slots {
		su, ok := updOf(s)
		if !ok {
			continue
		}
		if s.verNode == nil {
			cls["pom_upd_versionless_managed"] = true
			if s.visible && !s.isMgmt() {
				switch {
				case su.Only == "direct":
					cls["pom_upd_versionless_direct_twin_only"] = true
				case su.Only == "management":
					cls["pom_upd_versionless_management_twin_only"] = true
				default:
					cls["pom_upd_versionless_both_twins"] = true
				}
				if s.profile != "" {
					cls["pom_upd_versionless_in_profile"] = true
				}
			}
			continue
		}
		phs := placeholders(s.verLit)
		switch {
		case len(phs) == 0:
			cls["pom_upd_literal"] = true
		case len(phs) == 1 && s.verLit == "${"+phs[0]+"}":
			cls["pom_upd_property"] = true
		case len(phs) == 1:
			cls["pom_upd_property_with_affix"] = true
		default:
			cls["pom_upd_multi_property"] = true
		}
		if len(phs) > 0 && slotHit[s] {
			for _, k := range affixClasses(s.verLit, su.To) {
				cls[k] = true
			}
			// what the writer did: rewrote the property definitions, or <version> itself
			for i, x := range an.slots {
				if x == s {
					if anOut.slots[i].verLit != s.verLit {
						cls["pom_upd_interpolated_version_rewritten"] = true
					} else {
						cls["pom_upd_interpolated_property_rewritten"] = true
					}
				}
			}
		}
		for _, p := range phs {
			d := an.effDef(s, p)
			for _, x := range an.slots {
				if x != s && x.verNode != nil {
					for _, q := range placeholders(x.verLit) {
						if an.effDef(x, q) == d {
							cls["pom_upd_shared_property"] = true
						}
					}
				}
			}
			if d != nil && d.node.kids != nil && len(d.node.kids) > 0 && bytes.Contains(childIn, []byte("<"+d.name+"><![CDATA[")) {
				cls["pom_upd_cdata_property"] = true
			}
		}
		for _, p := range phs {
			d := an.effDef(s, p)
			if d == nil || s.profile == "" || d.profile != s.profile || d.file != s.file {
				continue
			}
			for _, x := range an.defs {
				if x == d || x.name != p {
					continue
				}
				cls["pom_upd_multi_scope_property"] = true
				switch {
				case x.file >= 1 && x.profile != "":
					cls["pom_upd_multi_scope_parent_profile"] = true
				case x.file >= 1:
					cls["pom_upd_multi_scope_parent"] = true
				case x.profile == "":
					cls["pom_upd_multi_scope_project_level"] = true
				default:
					later := false
					for _, y := range an.defs {
						if y == d {
							later = true
						} else if y == x {
							break
						}
					}
					if later {
						cls["pom_upd_multi_scope_later_profile"] = true
					} else {
						cls["pom_upd_multi_scope_earlier_profile"] = true
					}
				}
			}
		}
		switch {
		case s.file >= 1:
			cls["pom_upd_in_parent_file"] = true
			if s.file >= 2 {
				cls["pom_upd_in_grandparent_or_above"] = true
			}
			if f := chain[s.file].file; f.G == "" || f.V == "" {
				cls["pom_upd_in_ancestor_with_inherited_coordinates"] = true
			}
			if len(placeholders(s.verLit)) > 0 && slotHit[s] {
				cls["pom_upd_in_ancestor_interpolated"] = true
			}
			if s.origin == "management" {
				cls["pom_upd_in_ancestor_management"] = true
			}
		case strings.HasPrefix(s.origin, "profile@") && s.active:
			cls["pom_upd_active_profile"] = true
		case strings.HasPrefix(s.origin, "profile@"):
			cls["pom_upd_inactive_profile"] = true
		case strings.HasPrefix(s.origin, "plugin@"):
			cls["pom_upd_plugin_dependency"] = true
		case s.origin == "management":
			cls["pom_upd_management"] = true
		}
	}
	for k := range cls {
		o.Classes = append(o.Classes, k)
	}
	sort.Strings(o.Classes)
	return o, nil
}

// affixClasses describes an update of a property-interpolated version lit to the version
// target: where lit has literal text, and whether target can be spelled as lit with other
// property values whose ends share characters with the adjacent literal text.
func affixClasses(lit, target string) []string {
	lits, names := splitInterpolated(lit)
	if len(names) == 0 {
		return nil
	}
	pre, suf := lits[0], lits[len(lits)-1]
	var out []string
	if pre != "" {
		out = append(out, "pom_upd_prop_prefix")
	}
	if suf != "" {
		out = append(out, "pom_upd_prop_suffix")
	}
	if pre != "" && suf != "" {
		out = append(out, "pom_upd_prop_prefix_and_suffix")
	}
	if len(names) > 1 {
		out = append(out, "pom_upd_prop_multi")
		if pre != "" || suf != "" {
			out = append(out, "pom_upd_prop_multi_with_affix")
		}
	}
	if pre == "" && suf == "" && len(names) == 1 {
		return out
	}
	// the part of target left for the properties (and the literal text between them)
	if len(target) <= len(pre)+len(suf) || !strings.HasPrefix(target, pre) || !strings.HasSuffix(target, suf) {
		out = append(out, "pom_upd_target_not_expressible")
		if pre != "" && !strings.HasPrefix(target, pre) {
			out = append(out, "pom_upd_target_other_prefix")
		}
		if suf != "" && !strings.HasSuffix(target, suf) {
			out = append(out, "pom_upd_target_other_suffix")
		}
		if strings.HasPrefix(target, pre) && strings.HasSuffix(target, suf) {
			out = append(out, "pom_upd_target_nothing_left_for_property")
		}
		return out
	}
	mid := target[len(pre) : len(target)-len(suf)]
	if suf != "" && strings.ContainsRune(suf, rune(mid[len(mid)-1])) {
		out = append(out, "pom_upd_target_shares_suffix_chars")
		if strings.Trim(mid, suf) == "" {
			out = append(out, "pom_upd_target_only_suffix_chars")
		}
	}
	if pre != "" && strings.ContainsRune(pre, rune(mid[0])) {
		out = append(out, "pom_upd_target_shares_prefix_chars")
	}
	return out
}

func originName(s *pomSlot) string {
	f := pomFileName(s.file)
	if s.origin == "" {
		return f + " dependencies"
	}
	return f + " " + s.origin
}

func sameTokens(a, b []byte) bool {
	ta, ea := flatTokens(a)
	tb, eb := flatTokens(b)
	if ea != nil || eb != nil || len(ta) != len(tb) {
		return false
	}
	for i := range ta {
		if ta[i] != tb[i] {
			return false
		}
	}
	return true
}

// flatTokens is the encoding/xml token sequence with adjacent character data merged.
func flatTokens(b []byte) ([]string, error) {
	d := xml.NewDecoder(bytes.NewReader(b))
	var out []string
	lastText := false
	for {
		tok, err := d.Token()
		if err == io.EOF {
			return out, nil
		}
		if err != nil {
			return nil, err
		}
		switch t := tok.(type) {
		case xml.CharData:
			if lastText {
				out[len(out)-1] += string(t)
			} else {
				out = append(out, "T:"+string(t))
			}
			lastText = true
			continue
		case xml.StartElement:
			out = append(out, fmt.Sprintf("S:%v %v", t.Name, t.Attr))
		case xml.EndElement:
			out = append(out, fmt.Sprintf("E:%v", t.Name))
		case xml.Comment:
			out = append(out, "C:"+string(t))
		case xml.ProcInst:
			out = append(out, "P:"+t.Target+" "+string(t.Inst))
		case xml.Directive:
			out = append(out, "D:"+string(t))
		}
		lastText = false
	}
}
