package manifam

// C13 — manifest writers change exactly the requested requirements.
//
// Two legs share one case type (so that every known-finding witness decodes in both):
// TestC13_npm (package.json) and TestC13_pom (pom.xml with an optional chain of local
// parent POMs).

import (
	"fmt"
	"os"
	"path"
	"runtime"
	"strings"
	"testing"

	"pgregory.net/rapid"

	"verifharness/internal/ev"
)

type c13Case struct {
	Npm *npmCase `json:"npm,omitempty"`
	Pom *pomCase `json:"pom,omitempty"`
}

// propC13 decides one case. A panic of the code under test becomes a failing verdict whose
// text is deterministic (function names and lines, no addresses), so that rapid recognises
// the same failure while shrinking.
func propC13(c c13Case) (o ev.Outcome, err error) {
	defer func() {
		if r := recover(); r != nil {
			pcs := make([]uintptr, 40)
			n := runtime.Callers(2, pcs)
			frames := runtime.CallersFrames(pcs[:n])
			var lines []string
			for {
				f, more := frames.Next()
				if !strings.HasPrefix(f.Function, "runtime.") && len(lines) < 10 {
					lines = append(lines, fmt.Sprintf("  %s (%s:%d)", f.Function, f.File, f.Line))
				}
				if !more {
					break
				}
			}
			err = fmt.Errorf("panic: %v\n%s", r, strings.Join(lines, "\n"))
		}
	}()
	switch {
	case c.Npm != nil:
		return propC13Npm(c.Npm)
	case c.Pom != nil:
		return propC13Pom(c.Pom)
	}
	return ev.Outcome{}, fmt.Errorf("bad case: neither a package.json nor a pom.xml case")
}

func TestMain(m *testing.M) {
	code := m.Run()
	c13WS.cleanup()
	os.Exit(code)
}

// notMyReplay skips a leg in replay mode when the file belongs to the other leg (before the
// collector is touched, so that the skipped leg does not rewrite the statistics file).
func notMyReplay(t *testing.T) {
	if leg := ev.ReplayLeg(); ev.Replaying() && leg != "" && leg != t.Name() {
		t.Skipf("replay file is for leg %s", leg)
	}
}

func TestC13_npm(t *testing.T) {
	notMyReplay(t)
	col := ev.Get("C13")
	ev.Check(t, col, ev.Scale(6000, 8000), func(rt *rapid.T) c13Case {
		return c13Case{Npm: genNpmCase(rt, col)}
	}, propC13)
}

func TestC13_pom(t *testing.T) {
	notMyReplay(t)
	col := ev.Get("C13")
	ev.Check(t, col, ev.Scale(2500, 5000), func(rt *rapid.T) c13Case {
		return c13Case{Pom: genPomCase(rt, col)}
	}, propC13)
}

// chance draws a biased coin whose minimal (shrunk) value is false.
func chance(t *rapid.T, label string, num, den int) bool {
	return rapid.IntRange(0, den-1).Draw(t, label) >= den-num
}

// ---------------------------------------------------------------------------------------
// where the writer is asked to write

// c13Out is the output place of a case. Tree is the directory tree the output goes to:
// "" = out, a sibling of the input tree in (the manifest keeps its relative directory);
// "in" = the input tree itself, i.e. the manifest's own directory; or a deeper tree such
// as "out/nested/x". Name is the base name of the output file ("" = the manifest's own).
// Tree "in" with Name "" is a Write in place.
type c13Out struct {
	Tree string
	Name string
}

var c13PomOutNames = []string{"pom.patched.xml", "patched-pom.xml", "pom.xml.new", "out.xml"}
var c13NpmOutNames = []string{"package.patched.json", "package.json.new", "out.json", "patched-package.json"}

// genC13Out draws an output place; the minimal one is the sibling tree with the same name.
func genC13Out(t *rapid.T, names []string) c13Out {
	switch rapid.SampledFrom([]int{0, 0, 0, 1, 1, 2, 2, 3, 4, 4}).Draw(t, "out_place") {
	case 1: // other directory, other name
		return c13Out{Name: rapid.SampledFrom(names).Draw(t, "out_name")}
	case 2: // same directory, other name
		return c13Out{Tree: "in", Name: rapid.SampledFrom(names).Draw(t, "out_name")}
	case 3: // in place
		return c13Out{Tree: "in"}
	case 4: // a deeper directory, same or other name
		o := c13Out{Tree: "out/nested/x"}
		if rapid.Bool().Draw(t, "out_nested_other_name") {
			o.Name = rapid.SampledFrom(names).Draw(t, "out_name")
		}
		return o
	}
	return c13Out{}
}

// resolve returns the tree (relative to the workspace root) and the location of the
// output file in it, for a manifest at manifestRel in the input tree.
func (o c13Out) resolve(manifestRel string) (tree, rel string, err error) {
	tree = o.Tree
	if tree == "" {
		tree = "out"
	}
	if tree != "in" && tree != "out" && !strings.HasPrefix(tree, "out/") || tree != path.Clean(tree) || strings.Contains(tree, "..") {
		return "", "", fmt.Errorf("output tree %q", o.Tree)
	}
	name := o.Name
	if name == "" {
		name = path.Base(manifestRel)
	}
	if strings.ContainsAny(name, "/\\") || name == "." || name == ".." {
		return "", "", fmt.Errorf("output name %q", o.Name)
	}
	return tree, path.Join(path.Dir(manifestRel), name), nil
}

// class names the output place for the evidence counters.
func (o c13Out) class() string {
	switch {
	case o.Tree == "in" && o.Name == "":
		return "out_in_place"
	case o.Tree == "in":
		return "out_same_dir_other_name"
	case o.Tree != "" && o.Name == "":
		return "out_nested_dir_same_name"
	case o.Tree != "":
		return "out_nested_dir_other_name"
	case o.Name != "":
		return "out_other_dir_other_name"
	}
	return "out_other_dir_same_name"
}

// ---------------------------------------------------------------------------------------
// pom.xml generator

var pomGroups = []string{"org.example", "com.acme.lib", "io.x", "junit", "commons-io", "org.apache.maven.plugins"}
var pomArtifacts = []string{"core", "web-api", "util_x", "a.b", "junit", "guava", "commons-io", "x"}
var pomVersions = []string{"1.0", "2.3.4", "1.0.0-RC1", "4.12", "1.2.3.Final", "0.9-SNAPSHOT", "[1.0,2.0)", "3", "31.1-jre"}
var pomNewVersions = []string{"2", "9.9.9", "3.1", "1.0.1", "2.0.0-RC2", "10.2.3.Final", "[2.0,3.0)", "5.0-SNAPSHOT", "1", "4.13.2", "32.0.0-jre", "7.Final",
	"1.10.0", "2.0.0", "21.1.0", "1.1.0", "10.0", "1.10", "3.0.0.0", "12.2.3"}

// literal text around the placeholders of an interpolated version, and values of the
// properties used there (current ones and requested ones): chosen so that the value next
// to a literal part often ends (begins) with characters of that literal part.
var pomVerPrefixes = []string{"1.", "1.0.", "2.1.", "v", "10.", "0."}
var pomVerSuffixes = []string{"-jre", ".Final", ".0", ".0", ".1.0", ".2.3", ".0.0", "-SNAPSHOT", ".10", ".RELEASE"}
var pomVerSeps = []string{".", "-", ".0.", ".", ".1."}
var pomPropBases = []string{"1", "2", "10", "1.1", "21", "3.0", "12", "1.10", "2.0.1", "100", "0", "4.5", "31.1"}
var pomComments = []string{"x", "managed versions", "TODO: bump", "see https://example.com/?a=1&b=2 <later>", "license: Apache 2.0", " spaced  out ", "${not.a.property}"}
var pomPropNames = []string{"lib.version", "rev", "dep-x.version", "junitVersion", "v_1", "version.guava"}

// type/classifier combinations of the variants of one artifact (the plain jar, its
// test-jar, classifier variants)
var pomVariantForms = [][2]string{{"test-jar", ""}, {"", "tests"}, {"", ""}, {"test-jar", "tests"}, {"", "sources"}, {"", "jdk8"}, {"jar", ""}, {"pom", ""}, {"war", ""}}

type pomPropRec struct {
	name    string
	file    int
	profile string
}

type pomGen struct {
	t      *rapid.T
	col    *ev.Collector
	n      int
	files  []*pomFile // the manifest, then its local ancestors (nearest first)
	props  []pomPropRec
	hasPar bool
}

// ancestor draws one of the local ancestors (1 = the parent); the minimal value is the parent.
func (g *pomGen) ancestor(label string) int {
	if len(g.files) <= 2 {
		return 1
	}
	return rapid.IntRange(1, len(g.files)-1).Draw(g.t, label)
}

func (g *pomGen) coord() (string, string) {
	g.n++
	grp := rapid.SampledFrom(pomGroups).Draw(g.t, "group")
	art := rapid.SampledFrom(pomArtifacts).Draw(g.t, "artifact")
	return grp, fmt.Sprintf("%s%d", art, g.n)
}

func (g *pomGen) addProp(file int, profile string, val string) string {
	g.n++
	name := fmt.Sprintf("%s%d", rapid.SampledFrom(pomPropNames).Draw(g.t, "prop_name"), g.n)
	p := pomProp{Name: name, Val: val, CDATA: chance(g.t, "prop_cdata", 1, 8)}
	f := g.files[file]
	if profile == "" {
		f.Props = append(f.Props, p)
	} else {
		for i := range f.Profiles {
			if f.Profiles[i].ID == profile {
				f.Profiles[i].Props = append(f.Profiles[i].Props, p)
			}
		}
	}
	g.props = append(g.props, pomPropRec{name: name, file: file, profile: profile})
	return name
}

// propFor returns the name of a property usable by a dependency declared in (file,
// profile): a new one (declared locally, or in the other file), or an existing one.
func (g *pomGen) propFor(file int, profile string, val string) string {
	// 0..4 local project-level, 5..6 local profile-level (project-level outside profiles), 7 other file, 8..9 reuse
	choice := rapid.IntRange(0, 9).Draw(g.t, "prop_place")
	// reuse an existing property that is in scope
	if choice >= 8 {
		var inScope []string
		for _, p := range g.props {
			// project-level properties of the file itself and of the poms above it
			if (p.profile == "" && p.file >= file) || (p.profile != "" && p.profile == profile && p.file == file) {
				inScope = append(inScope, p.name)
			}
		}
		if len(inScope) > 0 {
			return rapid.SampledFrom(inScope).Draw(g.t, "prop_reuse")
		}
	}
	if g.hasPar && choice == 7 {
		if file == 0 {
			return g.addProp(g.ancestor("prop_in_ancestor"), "", val) // declared in an ancestor, used by the child
		}
		if file < len(g.files)-1 && rapid.Bool().Draw(g.t, "prop_from_above") {
			// declared further up the chain, used by this ancestor
			return g.addProp(rapid.IntRange(file+1, len(g.files)-1).Draw(g.t, "prop_above"), "", val)
		}
		// declared in the ancestor (where the dependency is), overridden by a pom below it
		name := g.addProp(file, "", val)
		below := 0
		if file > 1 {
			below = rapid.IntRange(0, file-1).Draw(g.t, "override_in")
		}
		g.files[below].Props = append(g.files[below].Props, pomProp{Name: name, Val: rapid.SampledFrom(pomVersions).Draw(g.t, "override_val")})
		return name
	}
	if profile != "" && choice >= 3 {
		return g.addProp(file, profile, val)
	}
	return g.addProp(file, "", val)
}

func (g *pomGen) version(file int, profile string) string {
	val := func(label string, small []string) string {
		if rapid.Bool().Draw(g.t, label+"_wide") {
			return rapid.SampledFrom(pomPropBases).Draw(g.t, label)
		}
		return rapid.SampledFrom(small).Draw(g.t, label)
	}
	switch rapid.IntRange(0, 13).Draw(g.t, "ver_form") {
	case 7, 8, 9:
		return "${" + g.propFor(file, profile, rapid.SampledFrom(pomVersions).Draw(g.t, "prop_val")) + "}"
	case 10:
		pre := rapid.SampledFrom(pomVerPrefixes).Draw(g.t, "ver_prefix")
		return pre + "${" + g.propFor(file, profile, val("prop_val", []string{"3", "4.5", "0", "12"})) + "}"
	case 11, 12:
		suf := rapid.SampledFrom(pomVerSuffixes).Draw(g.t, "ver_suffix")
		return "${" + g.propFor(file, profile, val("prop_val", []string{"3", "4.5", "31.1"})) + "}" + suf
	case 5, 13:
		sep := rapid.SampledFrom(pomVerSeps).Draw(g.t, "ver_sep")
		a := g.propFor(file, profile, val("prop_val", []string{"1", "2.3", "10"}))
		b := g.propFor(file, profile, val("prop_val2", []string{"4", "5.6", "RC1"}))
		if a == b {
			return "${" + a + "}"
		}
		v := "${" + a + "}" + sep + "${" + b + "}"
		// literal text before the first and/or after the last placeholder as well
		switch rapid.IntRange(0, 5).Draw(g.t, "ver_multi_affix") {
		case 3:
			v = rapid.SampledFrom(pomVerPrefixes).Draw(g.t, "ver_prefix") + v
		case 4:
			v += rapid.SampledFrom(pomVerSuffixes).Draw(g.t, "ver_suffix")
		case 5:
			v = rapid.SampledFrom(pomVerPrefixes).Draw(g.t, "ver_prefix") + v + rapid.SampledFrom(pomVerSuffixes).Draw(g.t, "ver_suffix")
		}
		return v
	case 6:
		pre := rapid.SampledFrom(pomVerPrefixes).Draw(g.t, "ver_prefix")
		suf := rapid.SampledFrom(pomVerSuffixes).Draw(g.t, "ver_suffix")
		return pre + "${" + g.propFor(file, profile, val("prop_val", []string{"2"})) + "}" + suf
	case 4:
		if file == 0 && profile == "" && g.files[0].V != "" {
			return "${project.version}"
		}
	}
	return rapid.SampledFrom(pomVersions).Draw(g.t, "ver_lit")
}

// splitInterpolated cuts the literal text of a version into the literal parts around its
// placeholders: lits[0] ${names[0]} lits[1] ... ${names[n-1]} lits[n].
func splitInterpolated(lit string) (lits, names []string) {
	for {
		i := strings.Index(lit, "${")
		if i < 0 {
			break
		}
		j := strings.Index(lit[i:], "}")
		if j < 0 {
			break
		}
		lits = append(lits, lit[:i])
		names = append(names, lit[i+2:i+j])
		lit = lit[i+j+1:]
	}
	return append(lits, lit), names
}

func trimSeps(s string) string { return strings.Trim(s, ".-") }

// shapedPropValue draws a value for a placeholder standing between the literal parts pre
// and suf: a plain value, often extended at its end with text made of the characters of
// suf (the suffix itself, the suffix without its separator, the suffix twice, its last
// character repeated) and sometimes at its start with text made of the characters of pre.
func (g *pomGen) shapedPropValue(pre, suf string) string {
	v := rapid.SampledFrom(pomPropBases).Draw(g.t, "to_base")
	if suf != "" {
		switch rapid.IntRange(0, 5).Draw(g.t, "to_tail") {
		case 1:
			v += suf // 1 + .0 -> 1.0 (requirement 1.0.0)
		case 2:
			v += trimSeps(suf) // 1 + 0 -> 10 (requirement 10.0)
		case 3:
			v += suf + suf
		case 4:
			v += strings.Repeat(suf[len(suf)-1:], 2)
		case 5:
			v += "." + trimSeps(suf) + suf // 1 + .0.0 -> requirement 1.0.0.0
		}
	}
	if pre != "" {
		switch rapid.IntRange(0, 5).Draw(g.t, "to_head") {
		case 1:
			v = pre + v
		case 2:
			v = trimSeps(pre) + v
		case 3:
			v = pre[:1] + v
		}
	}
	return v
}

// shapedTarget draws the requested version for a requirement whose declared version lit is
// property-interpolated: mostly one that is lit with other values for its properties, and
// sometimes one that cannot be expressed that way (the literal parts alone, a different
// ending, a different beginning) for which the writer has to rewrite <version> itself.
func (g *pomGen) shapedTarget(lit string) string {
	lits, names := splitInterpolated(lit)
	var b strings.Builder
	for i, l := range lits {
		b.WriteString(l)
		if i < len(names) {
			b.WriteString(g.shapedPropValue(l, lits[i+1]))
		}
	}
	v := b.String()
	switch rapid.IntRange(0, 9).Draw(g.t, "to_shape") {
	case 6:
		// nothing left for the properties: exactly the literal parts
		if bare := strings.Join(lits, ""); trimSeps(bare) != "" {
			return bare
		}
	case 7:
		// nothing left for the properties, separators tidied up (1.${p}.0 -> 1.0)
		if bare := trimSeps(strings.Join(lits, "")); bare != "" {
			return strings.ReplaceAll(strings.ReplaceAll(bare, "..", "."), "--", "-")
		}
	case 8:
		// another ending than the literal suffix
		return v + rapid.SampledFrom([]string{"1", ".1", "-b2", "0"}).Draw(g.t, "to_other_end")
	case 9:
		// another beginning than the literal prefix
		return rapid.SampledFrom([]string{"9", "2.", "0", "r"}).Draw(g.t, "to_other_start") + v
	}
	return v
}

func (g *pomGen) dep(file int, profile string) pomDep {
	grp, art := g.coord()
	d := pomDep{G: grp, A: art, Ver: g.version(file, profile)}
	if chance(g.t, "dep_type", 1, 6) {
		d.Type = rapid.SampledFrom([]string{"jar", "pom", "test-jar", "war"}).Draw(g.t, "type")
	}
	if chance(g.t, "dep_classifier", 1, 7) {
		d.Classifier = rapid.SampledFrom([]string{"tests", "sources", "jdk8"}).Draw(g.t, "classifier")
	}
	if chance(g.t, "dep_scope", 1, 3) {
		d.Scope = rapid.SampledFrom([]string{"test", "provided", "runtime", "compile"}).Draw(g.t, "scope")
	}
	d.Optional = chance(g.t, "dep_optional", 1, 8)
	if chance(g.t, "dep_excl", 1, 7) {
		d.Excl = []string{"org.exclude:exclude"}
		if rapid.Bool().Draw(g.t, "dep_excl2") {
			d.Excl = append(d.Excl, "*:*")
		}
	}
	d.VerCDATA = chance(g.t, "ver_cdata", 1, 10)
	if chance(g.t, "dep_comment", 1, 6) {
		d.Comment = rapid.SampledFrom(pomComments).Draw(g.t, "comment")
	}
	d.Order = rapid.SampledFrom([]int{0, 0, 0, 1, 2}).Draw(g.t, "dep_order")
	if chance(g.t, "dep_padded", 1, 10) {
		// white space around coordinates (and sometimes the version), as hand-edited or
		// re-wrapped poms have it
		d.Pad = rapid.SampledFrom([]string{"v", "g", "a", "v", "ga", "gav", "gatc", "tc", "gatcv"}).Draw(g.t, "dep_pad")
		d.PadNL = rapid.Bool().Draw(g.t, "dep_pad_nl")
	}
	return d
}

func (g *pomGen) deps(file int, profile string, max int) []pomDep {
	n := rapid.IntRange(0, max).Draw(g.t, "n_deps")
	var out []pomDep
	for i := 0; i < n; i++ {
		out = append(out, g.dep(file, profile))
	}
	return out
}

func (g *pomGen) layout(f *pomFile) {
	f.XMLDecl = rapid.Bool().Draw(g.t, "xml_decl")
	f.NS = chance(g.t, "ns", 2, 3)
	if chance(g.t, "header", 1, 4) {
		f.Header = "Licensed under the Apache License, Version 2.0;\n  see <https://www.apache.org/licenses/> & NOTICE"
		if chance(g.t, "header_project", 1, 4) {
			if g.col != nil && g.col.IsKnown("c13.project_literal_in_prolog") {
				g.col.Excluded("c13.project_literal_in_prolog")
			} else {
				f.Header = "The root element of this file is <project>; see <https://maven.apache.org/pom.html>"
			}
		}
	}
	f.Indent = rapid.SampledFrom([]string{"  ", "  ", "    ", "\t"}).Draw(g.t, "indent")
	f.BlankLine = rapid.Bool().Draw(g.t, "blank_line")
	f.NoFinalNL = chance(g.t, "no_final_nl", 1, 5)
	if chance(g.t, "tail", 1, 6) {
		f.Tail = "end of file"
	}
	if chance(g.t, "meta", 1, 3) {
		f.Name = rapid.SampledFrom([]string{"My App", "Tools &amp; more", "<![CDATA[<b>bold</b> & co]]>", "caf&#233; &lt;x&gt;", "quote &quot;q&quot; &apos;a&apos;"}).Draw(g.t, "name_text")
		if rapid.Bool().Draw(g.t, "has_desc") {
			f.Desc = rapid.SampledFrom([]string{"plain", "line one\n    line two", "uses ${project.version} &amp; <![CDATA[]] > ]]>"}).Draw(g.t, "desc_text")
		}
		f.Sections = append(f.Sections, "meta")
	}
	if chance(g.t, "modules", 1, 6) {
		f.Modules = []string{"module-a", "../sibling"}
		f.Sections = append(f.Sections, "modules")
	}
	if len(f.Props) > 0 || f.HasProps {
		f.Sections = append(f.Sections, "props")
		if chance(g.t, "prop_note", 1, 5) {
			f.PropNote = rapid.SampledFrom(pomComments).Draw(g.t, "comment")
		}
	}
	if len(f.Deps) > 0 || f.HasDeps {
		f.Sections = append(f.Sections, "deps")
		if chance(g.t, "deps_note", 1, 5) {
			f.DepsNote = rapid.SampledFrom(pomComments).Draw(g.t, "comment")
		}
	}
	if len(f.Mgmt) > 0 || f.HasMgmt {
		f.HasMgmt = true
		f.Sections = append(f.Sections, "mgmt")
	}
	if len(f.Profiles) > 0 {
		f.Sections = append(f.Sections, "profiles")
	}
	if len(f.Plugins) > 0 {
		f.Sections = append(f.Sections, "build")
	}
	if len(f.Sections) > 1 {
		f.Sections = rapid.Permutation(f.Sections).Draw(g.t, "section_order")
	}
	for range f.Sections {
		note := ""
		if chance(g.t, "sec_note", 1, 5) {
			note = rapid.SampledFrom(pomComments).Draw(g.t, "comment")
		}
		f.SecNotes = append(f.SecNotes, note)
	}
}

func (g *pomGen) plugins(file int, max int) []pomPlugin {
	n := rapid.IntRange(0, max).Draw(g.t, "n_plugins")
	var out []pomPlugin
	for i := 0; i < n; i++ {
		g.n++
		p := pomPlugin{A: fmt.Sprintf("maven-%s-plugin%d", rapid.SampledFrom([]string{"compiler", "surefire", "x"}).Draw(g.t, "plugin"), g.n)}
		if rapid.Bool().Draw(g.t, "plugin_group") {
			p.G = rapid.SampledFrom([]string{"org.apache.maven.plugins", "org.codehaus.mojo"}).Draw(g.t, "plugin_g")
		}
		if rapid.Bool().Draw(g.t, "plugin_version") {
			p.V = rapid.SampledFrom([]string{"3.8.1", "2.22.2"}).Draw(g.t, "plugin_v")
		}
		p.Managed = !chance(g.t, "plugin_unmanaged", 1, 4)
		p.Config = chance(g.t, "plugin_config", 1, 3)
		p.Pad = chance(g.t, "plugin_padded", 1, 10)
		nd := rapid.IntRange(0, 2).Draw(g.t, "plugin_deps")
		for j := 0; j < nd; j++ {
			p.Deps = append(p.Deps, g.dep(file, ""))
		}
		out = append(out, p)
	}
	return out
}

// genChain draws the local ancestors of the manifest: one to three poms, each found from
// the pom below it through <relativePath> (a file, a directory, or the default
// ../pom.xml). Every pom but the topmost one may leave out <groupId> and/or <version>,
// which it then inherits from its own <parent>.
func (g *pomGen) genChain(c *pomCase) {
	t := g.t
	depth := rapid.IntRange(1, 3).Draw(t, "chain_depth")
	names := []string{"parent", "grand", "root"}
	// coordinates, from the top down
	files := make([]*pomFile, depth+1)
	effG, effV := make([]string, depth+1), make([]string, depth+1)
	for k := depth; k >= 1; k-- {
		f := &pomFile{A: names[k-1] + "-pom", Packaging: "pom"}
		if k == 1 {
			f.A = "parent-pom"
		}
		ownG := "org.parent"
		if k > 1 {
			ownG = rapid.SampledFrom([]string{"org.parent", "org." + names[k-1]}).Draw(t, "ancestor_g")
		}
		ownV := rapid.SampledFrom([]string{"1.1.1", "7", "2.0-SNAPSHOT"}).Draw(t, "parent_v")
		if k == depth || !rapid.Bool().Draw(t, "ancestor_inherits_group") {
			f.G = ownG
			effG[k] = ownG
		} else {
			effG[k] = effG[k+1]
		}
		if k == depth || !rapid.Bool().Draw(t, "ancestor_inherits_version") {
			f.V = ownV
			effV[k] = ownV
		} else {
			effV[k] = effV[k+1]
		}
		files[k] = f
	}
	// locations, from the manifest up
	childPath := pomDefaultChildPath
	if depth > 1 {
		childPath = "w/x/app/pom.xml"
		c.ChildPath = childPath
	}
	used := map[string]bool{childPath: true}
	cur := childPath
	paths := make([]string, depth+1)
	files[0] = &c.Child
	for k := 1; k <= depth; k++ {
		name := names[k-1]
		dir := pathDir(cur)
		var rel string
		switch rapid.IntRange(0, 8).Draw(t, "parent_place") {
		case 0:
			rel = ""
		case 1:
			rel = "../pom.xml"
		case 2:
			rel = "../" + name + "/pom.xml"
		case 3:
			rel = "../" + name
		case 4:
			rel = name + "-pom.xml"
		case 5:
			rel = ".."
		case 6:
			rel = name + "/pom.xml"
		case 7:
			rel = name
		default:
			rel = "./../" + name + "/../" + name + "/pom.xml" // not in its shortest form
		}
		asFile, asDir := resolveParentPath(cur, rel)
		p := asFile
		if !strings.HasSuffix(asFile, ".xml") {
			p = asDir
		}
		// no way further up from the top directory, and never back to a pom of the chain
		if dir == "." && strings.HasPrefix(rel, "..") || rel == "" && dir == "." || strings.HasPrefix(p, "../") || used[p] {
			rel = name + "-pom.xml"
			p, _ = resolveParentPath(cur, rel)
		}
		used[p] = true
		paths[k] = p
		files[k-1].Parent = &pomParentRef{G: effG[k], A: files[k].A, V: effV[k], RelPath: rel}
		cur = p
	}
	c.Parent, c.ParentPath = files[1], paths[1]
	g.files = append(g.files, files[1])
	for k := 2; k <= depth; k++ {
		c.Ancestors = append(c.Ancestors, pomAncestor{File: *files[k], Path: paths[k]})
	}
	// the generator fills the ancestors in place
	for i := range c.Ancestors {
		g.files = append(g.files, &c.Ancestors[i].File)
	}
}

func pathDir(p string) string {
	if i := strings.LastIndex(p, "/"); i >= 0 {
		return p[:i]
	}
	return "."
}

func genPomCase(t *rapid.T, col *ev.Collector) *pomCase {
	g := &pomGen{t: t, col: col}
	c := &pomCase{}
	child := &c.Child
	g.files = []*pomFile{child}
	g.hasPar = chance(t, "has_parent", 4, 10)
	if g.hasPar {
		g.genChain(c)
	}
	child.A = "my-app"
	if !g.hasPar || !rapid.Bool().Draw(t, "inherit_group") {
		child.G = "com.mycompany.app"
	}
	if !g.hasPar || !rapid.Bool().Draw(t, "inherit_version") {
		child.V = rapid.SampledFrom([]string{"1.0", "0.1-SNAPSHOT"}).Draw(t, "child_v")
	}
	if chance(t, "packaging", 1, 4) {
		child.Packaging = rapid.SampledFrom([]string{"jar", "war", "pom"}).Draw(t, "packaging_v")
	}

	// profiles first (their ids are needed when properties are placed)
	np := rapid.IntRange(0, 2).Draw(t, "n_profiles")
	for i := 0; i < np; i++ {
		child.Profiles = append(child.Profiles, pomProfile{ID: fmt.Sprintf("profile-%d", i+1), Active: rapid.Bool().Draw(t, "profile_active"), PadID: chance(t, "profile_id_padded", 1, 10)})
	}
	// a few stand-alone properties
	if rapid.Bool().Draw(t, "plain_props") {
		child.Props = append(child.Props, pomProp{Name: "project.build.sourceEncoding", Val: "UTF-8"}, pomProp{Name: "maven.compiler.source", Val: "1.8"})
	}
	child.HasProps = chance(t, "empty_props", 1, 6)

	child.Deps = g.deps(0, "", 4)
	child.Mgmt = g.deps(0, "", 2)
	child.HasDeps = chance(t, "empty_deps", 1, 6)
	child.HasMgmt = chance(t, "empty_mgmt", 1, 6)
	for i := range child.Profiles {
		p := &child.Profiles[i]
		p.Deps = g.deps(0, p.ID, 2)
		if chance(t, "profile_mgmt", 1, 3) {
			p.HasMgmt = true
			p.Mgmt = g.deps(0, p.ID, 2)
		}
	}
	child.Plugins = g.plugins(0, 2)
	for k := 1; k < len(g.files); k++ {
		par := g.files[k]
		par.Deps = g.deps(k, "", 2)
		if k == 1 {
			par.Mgmt = g.deps(k, "", 3)
		} else {
			par.Mgmt = g.deps(k, "", 2)
		}
		par.Plugins = g.plugins(k, 1)
		if rapid.Bool().Draw(t, "parent_plain_props") {
			par.Props = append(par.Props, pomProp{Name: "encoding", Val: "UTF-8"})
		}
	}

	// variants of one artifact: one or two more declarations with the same
	// groupId:artifactId and another type and/or classifier (the jar and its test-jar, a
	// classifier variant), in the same section as the first one or, for a dependency of the
	// manifest, in its dependencyManagement; with the same version text (often a shared
	// property) or a version of their own
	variantNames := map[string]bool{}
	if chance(t, "variants", 3, 8) {
		type place struct {
			list    *[]pomDep
			file    int
			profile string
		}
		if len(child.Deps) == 0 {
			child.Deps = append(child.Deps, g.dep(0, ""))
		}
		places := []place{{&child.Deps, 0, ""}}
		if len(child.Mgmt) > 0 {
			places = append(places, place{&child.Mgmt, 0, ""})
		}
		for i := range child.Profiles {
			p := &child.Profiles[i]
			if len(p.Deps) > 0 {
				places = append(places, place{&p.Deps, 0, p.ID})
			}
			if len(p.Mgmt) > 0 {
				places = append(places, place{&p.Mgmt, 0, p.ID})
			}
		}
		if g.hasPar && len(g.files[1].Mgmt) > 0 {
			places = append(places, place{&g.files[1].Mgmt, 1, ""})
		}
		pl := places[0]
		if chance(t, "variant_elsewhere", 1, 2) {
			pl = places[rapid.IntRange(0, len(places)-1).Draw(t, "variant_place")]
		}
		d := (*pl.list)[rapid.IntRange(0, len(*pl.list)-1).Draw(t, "variant_of")]
		used := map[string]bool{normType(d.Type) + "|" + d.Classifier: true}
		nv := 1
		if chance(t, "variant_third", 1, 5) {
			nv = 2
		}
		for j := 0; j < nv; j++ {
			var forms [][2]string
			for _, f := range pomVariantForms {
				if !used[normType(f[0])+"|"+f[1]] {
					forms = append(forms, f)
				}
			}
			f := rapid.SampledFrom(forms).Draw(t, "variant_form")
			used[normType(f[0])+"|"+f[1]] = true
			v := g.dep(pl.file, pl.profile)
			v.G, v.A, v.Type, v.Classifier = d.G, d.A, f[0], f[1]
			if rapid.Bool().Draw(t, "variant_same_version_text") {
				v.Ver, v.VerCDATA = d.Ver, d.VerCDATA
			}
			if pl.list == &child.Deps && chance(t, "variant_in_mgmt", 1, 4) {
				child.Mgmt = append(child.Mgmt, v)
			} else {
				*pl.list = append(*pl.list, v)
			}
		}
		variantNames[d.G+":"+d.A] = true
	}

	// version-less declarations managed elsewhere: move the version of some child
	// dependencies into a dependencyManagement entry (of the child or of one of its ancestors)
	for i := range child.Deps {
		d := &child.Deps[i]
		if !chance(t, "managed", 1, 5) {
			continue
		}
		m := pomDep{G: d.G, A: d.A, Ver: d.Ver, Type: d.Type, Classifier: d.Classifier, VerCDATA: d.VerCDATA}
		d.Ver, d.VerCDATA = "", false
		if g.hasPar && rapid.Bool().Draw(t, "managed_in_parent") {
			lv := g.ancestor("managed_in_ancestor")
			// a property used by the entry must be visible from that ancestor as well: keep
			// literal versions there unless the property already lives in the same file
			if strings.Contains(m.Ver, "${") {
				ok := true
				for _, ph := range placeholders(m.Ver) {
					for _, p := range g.props {
						if p.name == ph && (p.file != lv || p.profile != "") {
							ok = false
						}
					}
				}
				if !ok {
					child.Mgmt = append(child.Mgmt, m)
					continue
				}
			}
			g.files[lv].Mgmt = append(g.files[lv].Mgmt, m)
		} else {
			child.Mgmt = append(child.Mgmt, m)
		}
	}

	// the same in profiles: a version-less dependency of a profile, managed by the
	// profile's own dependencyManagement or (default-active profiles, literal versions) by
	// the manifest's
	for i := range child.Profiles {
		p := &child.Profiles[i]
		for j := range p.Deps {
			d := &p.Deps[j]
			if d.Ver == "" || !chance(t, "profile_managed", 1, 5) {
				continue
			}
			m := pomDep{G: d.G, A: d.A, Ver: d.Ver, Type: d.Type, Classifier: d.Classifier, VerCDATA: d.VerCDATA}
			d.Ver, d.VerCDATA = "", false
			if p.Active && !strings.Contains(m.Ver, "${") && rapid.Bool().Draw(t, "profile_managed_by_project") {
				child.Mgmt = append(child.Mgmt, m)
			} else {
				p.HasMgmt = true
				p.Mgmt = append(p.Mgmt, m)
			}
		}
	}

	// the same package declared with a version in a second place
	if chance(t, "duplicate_decl", 1, 6) {
		// (version-less declarations of the manifest included: their version-bearing
		// declaration is the dependencyManagement entry that manages them)
		var cands []pomDep
		cands = append(cands, child.Deps...)
		for _, p := range child.Profiles {
			if !p.Active {
				cands = append(cands, p.Deps...)
			}
		}
		if len(cands) > 0 {
			d := rapid.SampledFrom(cands).Draw(t, "dup_of")
			dup := pomDep{G: d.G, A: d.A, Type: d.Type, Classifier: d.Classifier, Ver: rapid.SampledFrom([]string{"0.1", "7.7.7", "1.0"}).Draw(t, "dup_ver")}
			var inactive []int
			for i, p := range child.Profiles {
				if !p.Active {
					inactive = append(inactive, i)
				}
			}
			place := rapid.SampledFrom([]int{0, 1, 2, 3, 4, 5, 4, 5}).Draw(t, "dup_place")
			switch {
			case place == 4 && g.hasPar:
				// a profile of a local ancestor
				lv := g.ancestor("dup_in_ancestor_profile")
				g.n++
				g.files[lv].Profiles = append(g.files[lv].Profiles, pomProfile{ID: fmt.Sprintf("dup-%d", g.n), Active: rapid.Bool().Draw(t, "dup_profile_active"), Deps: []pomDep{dup}})
			case place == 5 && g.hasPar:
				// a pluginManagement plugin of a local ancestor
				lv := g.ancestor("dup_in_ancestor_plugin")
				placed := false
				for i := range g.files[lv].Plugins {
					if pl := &g.files[lv].Plugins[i]; pl.Managed && !placed {
						pl.Deps = append(pl.Deps, dup)
						placed = true
					}
				}
				if !placed {
					g.n++
					g.files[lv].Plugins = append(g.files[lv].Plugins, pomPlugin{G: "org.codehaus.mojo", A: fmt.Sprintf("dup-maven-plugin%d", g.n), Managed: true, Deps: []pomDep{dup}})
				}
			case place == 1 && g.hasPar:
				lv := g.ancestor("dup_in_ancestor")
				has := false
				for _, x := range g.files[lv].Mgmt {
					if x.G == dup.G && x.A == dup.A {
						has = true // the entry that manages a version-less declaration
					}
				}
				if !has {
					g.files[lv].Mgmt = append(g.files[lv].Mgmt, dup)
				}
			case place == 2 && len(inactive) > 0:
				i := inactive[len(inactive)-1]
				has := false
				for _, x := range child.Profiles[i].Deps {
					if x.G == dup.G && x.A == dup.A {
						has = true
					}
				}
				if !has {
					child.Profiles[i].Deps = append(child.Profiles[i].Deps, dup)
				}
			case place == 3 && len(child.Plugins) > 0 && child.Plugins[0].Managed:
				child.Plugins[0].Deps = append(child.Plugins[0].Deps, dup)
			default:
				has := false
				for _, x := range child.Mgmt {
					if x.G == dup.G && x.A == dup.A {
						has = true
					}
				}
				if !has {
					child.Mgmt = append(child.Mgmt, dup)
				}
			}
		}
	}

	// a property name defined in several scopes at once: in the (default-active) profile of
	// the dependency that uses it, and also in another profile (before or after it), at
	// project level, in a local ancestor, or in a profile of a local ancestor. The
	// definition in force for the dependency is the one of its own profile.
	forced := map[string]bool{}
	if chance(t, "multi_scope_property", 1, 4) {
		g.n++
		name := fmt.Sprintf("scoped.version%d", g.n)
		lit := rapid.SampledFrom([]string{"${" + name + "}", "${" + name + "}", "1.${" + name + "}", "${" + name + "}.Final", "${" + name + "}.0", "${" + name + "}.1.0", "1.${" + name + "}.0"}).Draw(t, "ms_form")
		grp, art := g.coord()
		own := pomProfile{ID: fmt.Sprintf("scoped-%d", g.n), Active: true,
			Props: []pomProp{{Name: name, Val: rapid.SampledFrom([]string{"3", "4.5", "1.0"}).Draw(t, "ms_val")}}}
		user := pomDep{G: grp, A: art, Ver: lit}
		if chance(t, "ms_in_mgmt", 1, 4) {
			own.HasMgmt, own.Mgmt = true, []pomDep{user}
		} else {
			own.Deps = []pomDep{user}
		}
		forced[grp+":"+art] = true
		other := func(id string) pomProfile {
			p := pomProfile{ID: id, Props: []pomProp{{Name: name, Val: rapid.SampledFrom([]string{"7", "8.1", "2.0"}).Draw(t, "ms_other_val")}}}
			if rapid.Bool().Draw(t, "ms_other_user") {
				og, oa := g.coord()
				p.Deps = []pomDep{{G: og, A: oa, Ver: "${" + name + "}"}}
			}
			return p
		}
		// at least one other scope; bit 0 = a later profile (the most common one)
		mask := rapid.IntRange(1, 31).Draw(t, "ms_scopes")
		if mask&2 != 0 {
			child.Profiles = append(child.Profiles, other(fmt.Sprintf("scoped-%d-before", g.n)))
		}
		child.Profiles = append(child.Profiles, own)
		if mask&1 != 0 {
			child.Profiles = append(child.Profiles, other(fmt.Sprintf("scoped-%d-after", g.n)))
		}
		if mask&4 != 0 {
			child.Props = append(child.Props, pomProp{Name: name, Val: "9.9"})
		}
		if g.hasPar && mask&8 != 0 {
			lv := g.ancestor("ms_ancestor")
			g.files[lv].Props = append(g.files[lv].Props, pomProp{Name: name, Val: "6.6"})
		}
		if g.hasPar && mask&16 != 0 {
			lv := g.ancestor("ms_ancestor_profile")
			g.files[lv].Profiles = append(g.files[lv].Profiles, other(fmt.Sprintf("scoped-%d-parent", g.n)))
		}
	}

	for _, f := range g.files {
		g.layout(f)
	}

	// updates
	var docs [][]byte
	for _, f := range c.chain() {
		docs = append(docs, renderPom(f.file))
	}
	an, err := analysePom(docs)
	if err != nil {
		t.Fatalf("generator produced an untokenisable pom: %v", err)
	}
	seen := map[string]bool{}
	byName := map[string]bool{}        // variants of this artifact are addressed by one update of the name
	variantTo := map[string]string{} // the version requested for the variant addressed before
	for _, s := range an.slots {
		if s.verNode == nil {
			continue
		}
		// the variants of one artifact are addressed one by one (requirement keys), or now and
		// then all together by one update of the name
		isVar := variantNames[s.name()]
		if isVar {
			if _, drawn := byName[s.name()]; !drawn {
				byName[s.name()] = chance(t, "variants_by_name", 1, 6)
			}
			isVar = !byName[s.name()]
		}
		key := s.name()
		if isVar {
			key += "|" + normType(s.typ) + "|" + s.classif
		}
		if seen[key] {
			continue
		}
		seen[key] = true
		if !s.visible && (strings.Contains(s.verLit, "${") || s.file >= 1) {
			continue // the suggester never proposes these
		}
		managed := an.managesVersionless(s)
		switch {
		case forced[s.name()]:
			if !chance(t, "update_forced", 7, 8) {
				continue
			}
		case variantNames[s.name()]:
			if !chance(t, "update_variant", 3, 4) {
				continue
			}
		case managed:
			if !chance(t, "update_managed", 2, 3) {
				continue
			}
		default:
			if !chance(t, "update", 1, 3) {
				continue
			}
		}
		cur, err := an.interp(s)
		if err != nil {
			t.Fatalf("generator: %v", err)
		}
		var nv string
		if strings.Contains(s.verLit, "${") && chance(t, "to_shaped", 3, 4) {
			nv = g.shapedTarget(s.verLit)
		} else {
			nv = rapid.SampledFrom(pomNewVersions).Draw(t, "to")
		}
		if nv == cur {
			nv = "99.0"
		}
		u := pomUpdate{Name: s.name(), To: nv}
		switch {
		case isVar:
			u.Variant, u.Type, u.Classifier = true, s.typ, s.classif
			// often the version requested for the other variant
			if prev, ok := variantTo[s.name()]; ok && prev != cur && rapid.Bool().Draw(t, "variant_same_target") {
				u.To = prev
			}
			variantTo[s.name()] = u.To
		case variantNames[s.name()]:
			// one update for all variants: another version than any of them has now
			for _, x := range an.slots {
				if x.name() == s.name() && x.verNode != nil {
					if xc, err := an.interp(x); err == nil && xc == u.To {
						u.To = "99.0"
					}
				}
			}
		}
		if managed && (isVar || !variantNames[s.name()]) {
			// a version-less dependency and the entry that manages it: the update addresses
			// both requirements, only the direct one, or only the dependencyManagement one
			u.Only = rapid.SampledFrom([]string{"", "direct", "management", "direct"}).Draw(t, "update_twin")
		}
		c.Updates = append(c.Updates, u)
	}
	// honour the known findings: drop updates that fall in a listed class
	for changed := true; changed; {
		changed = false
		for i, u := range c.Updates {
			drop := ""
			for _, cl := range pomUpdateClasses(an, c.Updates, u) {
				if col != nil && col.IsKnown(cl) {
					drop = cl
					break
				}
			}
			if drop != "" {
				col.Excluded(drop)
				c.Updates = append(append([]pomUpdate{}, c.Updates[:i]...), c.Updates[i+1:]...)
				changed = true
				break
			}
		}
	}
	out := genC13Out(t, c13PomOutNames)
	c.OutTree, c.OutName = out.Tree, out.Name
	return c
}
