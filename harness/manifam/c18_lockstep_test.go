package manifam

// C18, leg "override", second scenario family ("lockstep"): advisories that list SEVERAL
// packages, "for that package; records for other packages never match" where the Maven override
// strategy applies the affected-version rule (override.go, patchVulns).
//
// Scenario: a group of 2..3 Maven artifacts of one project released in lockstep (every member's
// version list is a prefix of ONE ascending master list, so the members' candidate versions are
// the same STRINGS), each required by the pom.xml at its own current version (index 0 or 1)
// either directly or through a carrier artifact with one version that depends on it (the member
// is then a transitive node, which the strategy overrides through dependencyManagement), its own
// upgrade level, and 1..3 advisories. An advisory has 1..3 affected[] entries, one per member it
// lists; an entry is a bit mask over that member's versions realised as OSV ranges exactly as in
// the single-package family (c18OvrRanges: five range styles, fixed / last_affected closing,
// explicit versions, "0"). The first advisory of a group lists at least two members, affects the
// current version of each, and its per-member masks differ above the current versions (fixed at
// different versions, never fixed, closed by last_affected, explicit versions, holes).
//
// Oracle: the procedure override.go documents (see c18_override_test.go), on the group's state
// vector. One attempt on the advisory ids I, starting from the current versions: per round, for
// every member j, L := the advisories of I that affect member j at its version v_j ACCORDING TO
// THE ENTRIES FOR MEMBER j (reference evaluator on the whole record, queried with the member's
// name); the candidates are the member's versions above v_j, ascending, up to the first one the
// member's level does not allow from v_j; the member moves to the first candidate with the
// fewest advisories of L still affecting it (for that member) when that number is below |L|;
// rounds repeat until no member moves. The members do not depend on each other, so the rounds
// of one member never see another member's state. The attempt proposes one patch that updates
// exactly the members that moved; advisories that affect a node afterwards and none before are
// "introduced" and attempted together with I. Attempts start from {a} for every advisory a
// that affects a node of the resolved graph.
//
// Decided per group: the set of reported patches that touch the group (each as the set of its
// (member, target version) updates) equals the set the attempts propose. In particular a
// member is never moved to a version its own entry still covers because another member's entry
// spares that version string, and a member's fix is never refused because another member's
// entry covers that version string. Every scenario is run c18GrpReps times: the strategy walks
// its per-round work in Go map order, the outcome must be the same in every order.

import (
	"encoding/json"
	"fmt"
	"sort"
	"strings"
	"testing"

	"verifharness/internal/ev"
	"verifharness/internal/universe"
)

const c18GrpLeg = "lockstep"

// c18GrpReps is the number of times one scenario is run.
const c18GrpReps = 4

type c18GrpEntry struct {
	Pkg int `json:"pkg"` // member index
	c18OvrAdvisory
}

type c18GrpAdvisory struct {
	Entries []c18GrpEntry `json:"entries"`
}

type c18GrpMember struct {
	N          int    `json:"n"`
	Current    int    `json:"current"`
	Level      string `json:"level"`
	Transitive bool   `json:"transitive,omitempty"`
}

type c18Grp struct {
	List       string           `json:"list"`
	Members    []c18GrpMember   `json:"members"`
	Advisories []c18GrpAdvisory `json:"advisories"`
}

type c18GrpCase struct {
	Leg    string   `json:"leg"`
	Reps   int      `json:"reps"`
	Groups []c18Grp `json:"groups"`
}

func c18GrpMemberName(g, j int) string  { return fmt.Sprintf("org.example:g%d-mod%d", g, j) }
func c18GrpCarrierName(g, j int) string { return fmt.Sprintf("org.example:g%d-car%d", g, j) }

const c18GrpCarrierVersion = "1.0"

type c18GrpPlan struct {
	names    []string
	V        [][]string
	cur      []int
	vers     [][]universe.Ver
	levels   []string
	recs     []universe.OSV
	affects  [][][]bool // [advisory][member][version index]; nil row: the advisory has no entry for the member
	expected map[string]bool
	// evidence
	multiPkgAdvisory  bool // an advisory affects the current versions of >= 2 members
	lockstepCandidate bool // two such members share an allowed candidate version string
	differAtCandidate bool // within one attempt one advisory was evaluated at one version string for two members with different verdicts
	differSameRound   bool // ... and that in one and the same round
	multiUpdate       bool // an expected patch updates >= 2 members
	chain             bool
	multiCount        bool
	transitive        bool
	refusedForOne     bool // an attempt on a multi-package advisory moves one member and has to leave another one affected
}

func (pl *c18GrpPlan) allowed(j, from, to int) bool {
	return universe.LevelAllows(pl.levels[j], universe.Classify(pl.vers[j][from], pl.vers[j][to]))
}

func (pl *c18GrpPlan) hits(id, j, x int) bool {
	row := pl.affects[id][j]
	return row != nil && row[x]
}

func c18GrpPatchKey(updates map[string]string) string {
	var ks []string
	for n, v := range updates {
		ks = append(ks, n+"@"+v)
	}
	sort.Strings(ks)
	return strings.Join(ks, ",")
}

// attempt runs the documented procedure for the advisory ids and returns the final versions.
func (pl *c18GrpPlan) attempt(ids []int) []int {
	v := append([]int(nil), pl.cur...)
	type probe struct {
		id int
		s  string
	}
	seen := map[probe]int{}      // bit 0: judged unaffected, bit 1: judged affected
	seenRound := map[probe]int{} // the same within the current round
	for {
		next := append([]int(nil), v...)
		moved := false
		clear(seenRound)
		for j := range pl.names {
			var L []int
			for _, id := range ids {
				if pl.hits(id, j, v[j]) {
					L = append(L, id)
				}
			}
			if len(L) == 0 {
				continue
			}
			if len(L) >= 2 {
				pl.multiCount = true
			}
			best, bestV := len(L), v[j]
			for c := v[j] + 1; c < len(pl.V[j]); c++ {
				if !pl.allowed(j, v[j], c) {
					break
				}
				n := 0
				for _, id := range L {
					bit := 1
					if pl.hits(id, j, c) {
						n++
						bit = 2
					}
					k := probe{id, pl.V[j][c]}
					seen[k] |= bit
					seenRound[k] |= bit
					if seen[k] == 3 {
						pl.differAtCandidate = true
					}
					if seenRound[k] == 3 {
						pl.differSameRound = true
					}
				}
				if n < best {
					best, bestV = n, c
					if best == 0 {
						break
					}
				}
			}
			if best < len(L) {
				next[j] = bestV
				moved = true
			}
		}
		if !moved {
			return v
		}
		v = next
	}
}

// c18GrpPlanFor builds the records of one group and runs the reference procedure.
func c18GrpPlanFor(g int, grp c18Grp) (*c18GrpPlan, error) {
	master, ok := c18OvrLists[grp.List]
	if !ok {
		return nil, fmt.Errorf("bad case: group %d: list %q", g, grp.List)
	}
	if len(grp.Members) < 2 || len(grp.Members) > 3 {
		return nil, fmt.Errorf("bad case: group %d has %d members", g, len(grp.Members))
	}
	if len(grp.Advisories) == 0 {
		return nil, fmt.Errorf("bad case: group %d has no advisory", g)
	}
	pl := &c18GrpPlan{expected: map[string]bool{}}
	for j, m := range grp.Members {
		if m.N < 2 || m.N > len(master) || m.Current < 0 || m.Current >= m.N {
			return nil, fmt.Errorf("bad case: group %d member %d: %d versions, current index %d", g, j, m.N, m.Current)
		}
		if m.Level != universe.LevelMajor && m.Level != universe.LevelMinor && m.Level != universe.LevelPatch {
			return nil, fmt.Errorf("bad case: group %d member %d: level %q", g, j, m.Level)
		}
		pl.names = append(pl.names, c18GrpMemberName(g, j))
		pl.V = append(pl.V, master[:m.N])
		pl.cur = append(pl.cur, m.Current)
		pl.levels = append(pl.levels, m.Level)
		vs := make([]universe.Ver, m.N)
		for k, s := range master[:m.N] {
			vs[k], _ = universe.ParseVer(s)
		}
		pl.vers = append(pl.vers, vs)
		pl.transitive = pl.transitive || m.Transitive
	}
	for k, a := range grp.Advisories {
		if len(a.Entries) == 0 || len(a.Entries) > len(grp.Members) {
			return nil, fmt.Errorf("bad case: group %d advisory %d has %d entries", g, k, len(a.Entries))
		}
		rec := universe.OSV{ID: fmt.Sprintf("VERIF-G%d-%d", g, k)}
		masks := make([]string, len(grp.Members))
		for _, e := range a.Entries {
			if e.Pkg < 0 || e.Pkg >= len(grp.Members) || masks[e.Pkg] != "" {
				return nil, fmt.Errorf("bad case: group %d advisory %d: entry for member %d", g, k, e.Pkg)
			}
			n := grp.Members[e.Pkg].N
			if len(e.Mask) != n || strings.Trim(e.Mask, "01") != "" || !strings.Contains(e.Mask, "1") {
				return nil, fmt.Errorf("bad case: group %d advisory %d: mask %q over %d versions", g, k, e.Mask, n)
			}
			if e.Style < 0 || e.Style >= c18OvrStyles || e.Close < 0 || e.Close > 2 {
				return nil, fmt.Errorf("bad case: group %d advisory %d: style %d close %d", g, k, e.Style, e.Close)
			}
			masks[e.Pkg] = e.Mask
			rs, vs := c18OvrRanges(pl.V[e.Pkg], e.c18OvrAdvisory)
			rec.Affected = append(rec.Affected, universe.OSVAffected{Package: universe.OSVPackage{Ecosystem: "Maven", Name: pl.names[e.Pkg]}, Ranges: rs, Versions: vs})
		}
		rows := make([][]bool, len(grp.Members))
		for j := range grp.Members {
			row := make([]bool, len(pl.V[j]))
			for x, s := range pl.V[j] {
				row[x] = universe.Affected(rec, "Maven", pl.names[j], s)
				want := masks[j] != "" && masks[j][x] == '1'
				if row[x] != want {
					return nil, fmt.Errorf("harness: group %d advisory %d: the masks say %s@%s affected=%v, the reference evaluator says %v for %s", g, k, pl.names[j], s, want, row[x], c18GrpDescribe(rec))
				}
			}
			if masks[j] != "" {
				rows[j] = row
			}
		}
		pl.recs = append(pl.recs, rec)
		pl.affects = append(pl.affects, rows)
	}

	// evidence about the shape
	for id := range pl.affects {
		var at []int
		for j := range pl.names {
			if pl.hits(id, j, pl.cur[j]) {
				at = append(at, j)
			}
		}
		if len(at) < 2 {
			continue
		}
		pl.multiPkgAdvisory = true
		for x := 0; x < len(at); x++ {
			for y := x + 1; y < len(at); y++ {
				a, b := at[x], at[y]
				for c := max(pl.cur[a], pl.cur[b]) + 1; c < min(len(pl.V[a]), len(pl.V[b])); c++ {
					if pl.allowed(a, pl.cur[a], c) && pl.allowed(b, pl.cur[b], c) {
						pl.lockstepCandidate = true
					}
				}
			}
		}
	}

	affectsGraph := func(id int, v []int) bool {
		for j := range pl.names {
			if pl.hits(id, j, v[j]) {
				return true
			}
		}
		return false
	}
	var queue [][]int
	done := map[string]bool{}
	push := func(ids []int) {
		sort.Ints(ids)
		k := fmt.Sprint(ids)
		if !done[k] {
			done[k] = true
			queue = append(queue, ids)
		}
	}
	for id := range pl.affects {
		if affectsGraph(id, pl.cur) {
			push([]int{id})
		}
	}
	for len(queue) > 0 {
		ids := queue[0]
		queue = queue[1:]
		v := pl.attempt(ids)
		updates := map[string]string{}
		for j := range pl.names {
			if v[j] != pl.cur[j] {
				updates[pl.names[j]] = pl.V[j][v[j]]
			}
		}
		if len(updates) == 0 {
			continue
		}
		if len(updates) >= 2 {
			pl.multiUpdate = true
		}
		if len(ids) == 1 {
			left := false
			for j := range pl.names {
				if pl.hits(ids[0], j, v[j]) {
					left = true
				}
			}
			if left {
				pl.refusedForOne = true
			}
		}
		pl.expected[c18GrpPatchKey(updates)] = true
		next := append([]int(nil), ids...)
		grew := false
		for id := range pl.affects {
			if affectsGraph(id, v) && !affectsGraph(id, pl.cur) && !containsInt(ids, id) {
				next = append(next, id)
				grew = true
			}
		}
		if grew {
			pl.chain = true
			push(next)
		}
	}
	return pl, nil
}

func containsInt(xs []int, x int) bool {
	for _, y := range xs {
		if y == x {
			return true
		}
	}
	return false
}

func c18GrpDescribe(r universe.OSV) string {
	b, _ := json.Marshal(r.Affected)
	return r.ID + " " + string(b)
}

type c18GrpResult struct {
	Outcome ev.Outcome
	Err     error
}

// c18GrpRunOnce runs the groups of the case in one manifest and decides every group.
func c18GrpRunOnce(c c18GrpCase, plans []*c18GrpPlan) ([]error, error) {
	var pkgs []c18Pkg
	var deps []universe.Requirement
	var recs []universe.OSV
	var extra []string // schema lines of the carriers
	levels := universe.Levels{Default: universe.LevelMajor, Packages: map[string]string{}}
	type ref struct{ g, j int }
	byName := map[string]ref{}
	wantNodes := map[[2]string]bool{}
	for g, grp := range c.Groups {
		pl := plans[g]
		for j, m := range grp.Members {
			byName[pl.names[j]] = ref{g, j}
			pkgs = append(pkgs, c18Pkg{Name: pl.names[j], Versions: pl.V[j]})
			levels.Packages[pl.names[j]] = m.Level
			wantNodes[[2]string{pl.names[j], pl.V[j][m.Current]}] = true
			if m.Transitive {
				car := c18GrpCarrierName(g, j)
				extra = append(extra, car, "  "+c18GrpCarrierVersion, "    "+pl.names[j]+"@"+pl.V[j][m.Current])
				deps = append(deps, universe.Requirement{Name: car, Req: c18GrpCarrierVersion})
				wantNodes[[2]string{car, c18GrpCarrierVersion}] = true
			} else {
				deps = append(deps, universe.Requirement{Name: pl.names[j], Req: pl.V[j][m.Current]})
			}
		}
		recs = append(recs, pl.recs...)
	}
	s := c18Scenario(universe.Maven, pkgs, deps, recs, levels)
	s.Universe.Schema = append(s.Universe.Schema, extra...)
	run, err := c18RunScenario(s, 0)
	if err != nil {
		return nil, err
	}
	if len(run.Nodes) != len(wantNodes) {
		return nil, fmt.Errorf("harness: the graph holds %v, expected %d nodes", run.Nodes, len(wantNodes))
	}
	for _, n := range run.Nodes {
		if !wantNodes[n] {
			return nil, fmt.Errorf("harness: unexpected node %s@%s", n[0], n[1])
		}
	}
	got := make([]map[string]bool, len(c.Groups))
	for g := range got {
		got[g] = map[string]bool{}
	}
	errs := make([]error, len(c.Groups))
	for _, p := range run.Patches {
		updates := map[string]string{}
		grp := -1
		for _, u := range p.PackageUpdates {
			r, ok := byName[u.Name]
			if !ok {
				return nil, fmt.Errorf("a patch updates %s, which no advisory names: %+v", u.Name, universe.UpdatesOf(p.PackageUpdates))
			}
			if grp >= 0 && grp != r.g && errs[r.g] == nil {
				errs[r.g] = fmt.Errorf("a patch updates artifacts of two unrelated projects (%+v); no advisory names both", universe.UpdatesOf(p.PackageUpdates))
			}
			grp = r.g
			m := c.Groups[r.g].Members[r.j]
			if cur := plans[r.g].V[r.j][m.Current]; !m.Transitive && u.VersionFrom != cur && errs[r.g] == nil {
				errs[r.g] = fmt.Errorf("a patch updates %s from %q, the manifest requires %q", u.Name, u.VersionFrom, cur)
			}
			if _, dup := updates[u.Name]; dup && errs[r.g] == nil {
				errs[r.g] = fmt.Errorf("a patch updates %s twice: %+v", u.Name, universe.UpdatesOf(p.PackageUpdates))
			}
			updates[u.Name] = u.VersionTo
		}
		if grp >= 0 {
			got[grp][c18GrpPatchKey(updates)] = true
		}
	}
	for g := range c.Groups {
		if errs[g] != nil {
			errs[g] = fmt.Errorf("override, lockstep group %d: %w", g, errs[g])
			continue
		}
		if c18SortedKeys(got[g]) != c18SortedKeys(plans[g].expected) {
			errs[g] = fmt.Errorf("override, lockstep group %s: the patches are %s, the OSV evaluation of each advisory FOR THE PACKAGE IN QUESTION says %s; %s",
				strings.Join(plans[g].names, ", "), c18SortedKeys(got[g]), c18SortedKeys(plans[g].expected), c18GrpDescribeAll(plans[g], c.Groups[g]))
		}
	}
	return errs, nil
}

func c18GrpDescribeAll(pl *c18GrpPlan, grp c18Grp) string {
	var parts []string
	for j, m := range grp.Members {
		via := "direct"
		if m.Transitive {
			via = "transitive"
		}
		parts = append(parts, fmt.Sprintf("%s at %s (%s, versions %v, level %s)", pl.names[j], pl.V[j][m.Current], via, pl.V[j], m.Level))
	}
	for _, r := range pl.recs {
		parts = append(parts, c18GrpDescribe(r))
	}
	return strings.Join(parts, " | ")
}

// c18GrpRun decides every group of the case, Reps runs each.
func c18GrpRun(c c18GrpCase) ([]c18GrpResult, error) {
	if err := c18OvrCheckLists(); err != nil {
		return nil, err
	}
	if len(c.Groups) == 0 {
		return nil, fmt.Errorf("bad case: no groups")
	}
	if c.Reps < 1 || c.Reps > 64 {
		return nil, fmt.Errorf("bad case: %d repetitions", c.Reps)
	}
	plans := make([]*c18GrpPlan, len(c.Groups))
	for g, grp := range c.Groups {
		pl, err := c18GrpPlanFor(g, grp)
		if err != nil {
			return nil, err
		}
		plans[g] = pl
	}
	out := make([]c18GrpResult, len(c.Groups))
	for g, grp := range c.Groups {
		pl := plans[g]
		cls := []string{
			fmt.Sprintf("grp_members_%d", len(grp.Members)), fmt.Sprintf("grp_advisories_%d", len(grp.Advisories)), "grp_list_" + grp.List,
		}
		for _, a := range grp.Advisories {
			cls = append(cls, fmt.Sprintf("grp_advisory_entries_%d", len(a.Entries)))
			for _, e := range a.Entries {
				cls = append(cls, fmt.Sprintf("grp_entry_style_%d", e.Style), fmt.Sprintf("grp_entry_close_%d", e.Close))
				m := grp.Members[e.Pkg]
				if e.Mask[m.Current] == '1' && !strings.Contains(e.Mask[m.Current:], "0") {
					cls = append(cls, "grp_entry_never_fixed")
				}
			}
		}
		flag := func(b bool, name string) {
			if b {
				cls = append(cls, name)
			}
		}
		flag(pl.multiPkgAdvisory, "grp_multi_package_advisory")
		flag(pl.lockstepCandidate, "grp_lockstep_versions")
		flag(pl.differAtCandidate, "grp_ranges_differ_at_candidate")
		flag(pl.differSameRound, "grp_ranges_differ_at_candidate_same_round")
		flag(pl.multiUpdate, "grp_expected_patch_with_several_updates")
		flag(pl.refusedForOne, "grp_one_member_fixed_other_left_affected")
		flag(pl.chain, "grp_chain_of_introduced")
		flag(pl.multiCount, "grp_step_with_several_advisories")
		flag(pl.transitive, "grp_transitive_member")
		flag(len(pl.expected) > 0, "grp_expected_patch")
		flag(len(pl.expected) == 0, "grp_expected_no_patch")
		flag(len(pl.expected) >= 2, "grp_expected_several_patches")
		o := ev.Outcome{Classes: cls, NonTrivial: pl.multiPkgAdvisory && pl.differAtCandidate}
		b, _ := json.Marshal(grp)
		o.Key = "grp:" + string(b)
		out[g].Outcome = o
	}
	for rep := 0; rep < c.Reps; rep++ {
		errs, err := c18GrpRunOnce(c, plans)
		if err != nil {
			return nil, err
		}
		for g, e := range errs {
			if e != nil && out[g].Err == nil {
				out[g].Err = fmt.Errorf("%w (run %d of %d)", e, rep+1, c.Reps)
			}
		}
	}
	return out, nil
}

func propC18Grp(c c18GrpCase) (ev.Outcome, error) {
	if c.Leg != c18GrpLeg {
		return ev.Outcome{}, fmt.Errorf("bad case: not a case of the lockstep family (leg %q)", c.Leg)
	}
	rs, err := c18GrpRun(c)
	if err != nil {
		return ev.Outcome{}, err
	}
	var o ev.Outcome
	for _, r := range rs {
		o.NonTrivial = o.NonTrivial || r.Outcome.NonTrivial
		o.Classes = append(o.Classes, r.Outcome.Classes...)
		if r.Err != nil {
			return o, r.Err
		}
	}
	return o, nil
}

func c18GrpRunSafe(c c18GrpCase) (rs []c18GrpResult, err error) {
	defer func() {
		if r := recover(); r != nil {
			err = fmt.Errorf("panic: %v", r)
		}
	}()
	return c18GrpRun(c)
}

// c18GrpGen draws one group. By construction the first advisory lists >= 2 members, affects
// the current version of each, and the masks of its first two entries differ at a version
// string above both current versions.
func c18GrpGen(rng *c18Rng) c18Grp {
	levels := []string{universe.LevelMajor, universe.LevelMajor, universe.LevelMinor, universe.LevelPatch}
	lists := []string{"a", "b", "c"}
	grp := c18Grp{List: lists[rng.intn(len(lists))]}
	nm := 2 + rng.intn(2)
	sameN := rng.intn(2) == 0
	n0 := 4 + rng.intn(6)
	for j := 0; j < nm; j++ {
		n := n0
		if !sameN {
			n = 4 + rng.intn(6)
		}
		grp.Members = append(grp.Members, c18GrpMember{N: n, Current: rng.intn(2), Level: levels[rng.intn(len(levels))], Transitive: rng.intn(4) == 0})
	}
	randMask := func(n int) []byte {
		for {
			m := rng.intn(1 << n)
			if m != 0 {
				return []byte(c18OvrMask(m, n))
			}
		}
	}
	// an entry of the leading advisory for member j: affects the current version
	lead := func(j int) c18GrpEntry {
		m := grp.Members[j]
		e := c18GrpEntry{Pkg: j, c18OvrAdvisory: c18OvrAdvisory{Style: rng.intn(c18OvrStyles), Close: rng.intn(3), Zero: rng.intn(2) == 0}}
		mask := []byte(strings.Repeat("0", m.N))
		lo := m.Current
		if rng.intn(2) == 0 {
			lo = 0
		}
		fill := func(hi int) { // versions lo..hi-1 affected
			for x := lo; x < hi; x++ {
				mask[x] = '1'
			}
		}
		switch rng.intn(6) {
		case 0: // never fixed
			fill(m.N)
		case 1: // fixed at a later version
			fill(m.Current + 1 + rng.intn(m.N-m.Current))
			e.Close = 0
		case 2: // closed by last_affected
			fill(m.Current + 1 + rng.intn(m.N-m.Current))
			e.Close = 1
		case 3: // fixed, affected again later
			f := m.Current + 1 + rng.intn(m.N-m.Current)
			fill(f)
			for x := f + 1; x < m.N; x++ {
				if rng.intn(2) == 0 {
					mask[x] = '1'
				}
			}
		case 4: // explicit versions
			mask = randMask(m.N)
			mask[m.Current] = '1'
			e.Style = 4
		default:
			mask = randMask(m.N)
			mask[m.Current] = '1'
		}
		e.Mask = string(mask)
		return e
	}
	members := make([]int, nm)
	for j := range members {
		members[j] = j
	}
	shuffle := func(xs []int) {
		for i := len(xs) - 1; i > 0; i-- {
			k := rng.intn(i + 1)
			xs[i], xs[k] = xs[k], xs[i]
		}
	}
	shuffle(members)
	listed := members
	if nm == 3 && rng.intn(2) == 0 {
		listed = members[:2]
	}
	var first c18GrpAdvisory
	for _, j := range listed {
		first.Entries = append(first.Entries, lead(j))
	}
	// the first two entries differ at a version string above both current versions
	if rng.intn(4) != 0 {
		a, b := &first.Entries[0], &first.Entries[1]
		ma, mb := grp.Members[a.Pkg], grp.Members[b.Pkg]
		lo, hi := max(ma.Current, mb.Current)+1, min(ma.N, mb.N)
		c := lo + rng.intn(hi-lo)
		if rng.intn(3) == 0 {
			c = lo // the first candidate of the member with the higher current version
		}
		x, y := []byte(a.Mask), []byte(b.Mask)
		x[c], y[c] = '0', '1'
		a.Mask, b.Mask = string(x), string(y)
	}
	grp.Advisories = append(grp.Advisories, first)
	for k, na := 1, 1+rng.intn(3); k < na; k++ {
		var a c18GrpAdvisory
		shuffle(members)
		ne := 1
		if rng.intn(2) == 0 {
			ne = 2 + rng.intn(nm-1)
		}
		for _, j := range members[:ne] {
			m := grp.Members[j]
			mask := randMask(m.N)
			switch rng.intn(3) {
			case 0:
				mask[m.Current] = '1'
			case 1:
				// spares the current version: an advisory that can only be introduced
				mask[m.Current] = '0'
				mask[m.Current+1+rng.intn(m.N-m.Current-1)] = '1'
			}
			a.Entries = append(a.Entries, c18GrpEntry{Pkg: j, c18OvrAdvisory: c18OvrAdvisory{Mask: string(mask), Style: rng.intn(c18OvrStyles), Close: rng.intn(3), Zero: rng.intn(2) == 0}})
		}
		grp.Advisories = append(grp.Advisories, a)
	}
	if len(grp.Advisories) >= 2 && rng.intn(2) == 0 {
		// by construction: the later advisories spare the current version of a member the first
		// advisory lists and affect the first version above it that the first advisory spares
		// for that member, so that the follow-up attempt meets several advisories on one version
		for _, fe := range first.Entries {
			cur := grp.Members[fe.Pkg].Current
			tA := strings.IndexByte(fe.Mask[cur+1:], '0')
			if tA < 0 {
				continue
			}
			tA += cur + 1
			for k := 1; k < len(grp.Advisories); k++ {
				for x := range grp.Advisories[k].Entries {
					e := &grp.Advisories[k].Entries[x]
					if e.Pkg == fe.Pkg {
						m := []byte(e.Mask)
						m[cur], m[tA] = '0', '1'
						e.Mask = string(m)
					}
				}
			}
		}
	}
	return grp
}

// c18GrpPhase is the lockstep family of TestC18_override.
func c18GrpPhase(t *testing.T, col *ev.Collector, e *ev.Enumerator) bool {
	shard, shards := ev.Shard()
	rng := &c18Rng{s: ev.Seed() ^ 0x10c5739018}
	count := 320
	if ev.Thorough() {
		count = 24000
	}
	var all []c18Grp
	for i := 0; i < count; i++ {
		g := c18GrpGen(rng)
		if i%shards == shard {
			all = append(all, g)
		}
	}
	col.SetExtra("override_lockstep_groups", fmt.Sprint(len(all)))
	col.SetExtra("override_lockstep_runs_per_group", fmt.Sprint(c18GrpReps))

	const batch = 4
	for lo := 0; lo < len(all); lo += batch {
		hi := min(lo+batch, len(all))
		c := c18GrpCase{Leg: c18GrpLeg, Reps: c18GrpReps, Groups: all[lo:hi]}
		rs, err := c18GrpRunSafe(c)
		if err != nil {
			single := c
			for _, g := range c.Groups {
				one := c18GrpCase{Leg: c18GrpLeg, Reps: 4 * c18GrpReps, Groups: []c18Grp{g}}
				if _, e1 := c18GrpRunSafe(one); e1 != nil {
					single, err = one, e1
					break
				}
			}
			if !e.Report(single, ev.Outcome{}, err) {
				return false
			}
			continue
		}
		for i, r := range rs {
			one := c18GrpCase{Leg: c18GrpLeg, Reps: c18GrpReps, Groups: []c18Grp{c.Groups[i]}}
			cs := any(one)
			if r.Err != nil {
				// file the group on its own when it fails on its own (more runs: the failure may
				// depend on the order in which the strategy visits the members), else the batch
				one.Reps = 4 * c18GrpReps
				cs = one
				if rs1, e1 := c18GrpRunSafe(one); e1 == nil && rs1[0].Err == nil {
					cs = c
				} else if e1 == nil {
					r.Err = rs1[0].Err
				}
			}
			if !e.Report(cs, r.Outcome, r.Err) {
				return false
			}
		}
	}
	return true
}
