package manifam

// C18, leg "override" — the affected-version rule where the Maven override strategy applies
// it (guidedremediation/internal/strategy/override/override.go, patchVulns).
//
// What override.go documents: every vulnerability of the resolved manifest is attempted on its
// own ("attempts to resolve each vulnerability found in result independently"); an attempt
// looks at each vulnerable package version and the attempt's vulnerabilities that affect it,
// walks the package's known greater versions in ascending (Maven) order up to the first one the
// upgrade configuration disallows ("Break if we've encountered a disallowed version update"),
// counts per version "the remaining known vulns that affect this version" and overrides to
// "the minimal greater version that fixes as many vulnerabilities as possible"; the manifest
// is re-resolved and the step repeats until the attempt's vulnerabilities are gone or no
// version improves. "If a patch introduces new vulnerabilities, additional overrides are
// attempted for the new vulnerabilities" (common.ComputePatches: the introduced ones grouped
// with the attempt that introduced them). Whether a version is "affected" is vulns.IsAffected,
// i.e. the OSV evaluation the property states: OSV ranges may re-open after a fixed /
// last_affected event or through a second range, so affectedness is NOT monotone in the
// version.
//
// Scenario: a Maven universe with packages org.example:lib<i> (4..9 versions each, a prefix of
// one of two ascending master lists whose (major, minor, patch) triples are pairwise distinct,
// no dependencies), a pom.xml that requires each lib<i> at its "current" version (index 0 or
// 1), an upgrade level per package (major | minor | patch) and 1..3 advisories per package.
// An advisory is given by the set of versions it affects (a bit mask over the version list),
// realised as OSV ranges in one of five styles (one range with alternating events, the same
// listed in reverse, one range per interval, those listed last-first with reversed events,
// singleton intervals as explicit versions) with intervals closed by fixed (at the next
// version) or last_affected (at the interval's last version), the lowest interval optionally
// introduced at "0". The packages of one run are independent of each other (no dependencies,
// every advisory names one package), so a run decides each package on its own.
//
// Oracle: the documented procedure above, executed per package over version INDICES with the
// reference OSV evaluator (internal/universe.Affected; the intended mask of every advisory is
// re-checked against it), the list order (asserted against the reference Maven comparator of
// internal/vergram) and the reference major/minor/patch classifier for "allowed":
//
//	attempt(ids): v := current
//	  repeat: L := the advisories of ids that affect v; stop when L is empty;
//	          candidates := the versions above v, ascending, up to (excluding) the first one the
//	          level does not allow as an upgrade FROM v;
//	          t := the FIRST candidate with the fewest advisories of L still affecting it;
//	          stop when that number is not below |L|; v := t
//	  the attempt proposes current -> v when v != current; the advisories that affect v but
//	  not current are "introduced": when some are not in ids, attempt(ids + those) follows.
//	attempts start from {a} for every advisory a that affects current.
//
// Decided: the set of target versions of the reported patches that update lib<i> equals the
// set of versions the attempts propose (each patch updates exactly that one requirement, from
// the current version). In particular, for an attempt on a single advisory: (1) if some
// allowed greater version is unaffected by it, the advisory is not left without a patch, and
// (2) the chosen version is the FIRST allowed greater version (Maven order) the advisory does
// not affect — not a later one behind a re-opened interval.
//
// Quick tier: a seed-dependent sample of the single-advisory, two-advisory and
// three-advisory scenarios; thorough tier: every single-advisory scenario (both lists, 4..9
// versions, both current versions, every mask that affects the current version, 3 levels,
// styles rotating), every two-advisory scenario over 4..6 versions, and a sample of the
// larger two- and three-advisory scenarios.
//
// A second scenario family, advisories that list several artifacts released in lockstep, is in
// c18_lockstep_test.go (c18GrpPhase, run at the end of TestC18_override; its cases carry the
// leg name "lockstep").

import (
	"encoding/json"
	"fmt"
	"os"
	"strings"
	"sync"
	"testing"

	"verifharness/internal/ev"
	"verifharness/internal/universe"
)

const c18OvrLeg = "override"

type c18OvrAdvisory struct {
	Mask  string `json:"mask"`  // one character per version: '1' affected, '0' not
	Style int    `json:"style"` // 0..4, see c18OvrRanges
	Close int    `json:"close"` // 0 fixed, 1 last_affected, 2 alternating per interval
	Zero  bool   `json:"zero,omitempty"`
}

type c18OvrPkg struct {
	List       string           `json:"list"` // "a" | "b"
	N          int              `json:"n"`    // number of versions (prefix of the master list)
	Current    int              `json:"current"`
	Level      string           `json:"level"` // major | minor | patch
	Advisories []c18OvrAdvisory `json:"advisories"`
}

type c18OvrCase struct {
	Leg      string      `json:"leg"`
	Packages []c18OvrPkg `json:"packages"`
}

// The master lists, ascending in Maven's order; the (major, minor, patch) triples are pairwise
// distinct, so that the difference class of two versions never hinges on a qualifier.
var c18OvrLists = map[string][]string{
	"a": {"1.0", "1.0.1", "1.1", "1.2-rc-1", "1.2.1", "2.0", "2.0.1", "2.1", "3.0-beta-1"},
	"b": {"2.0", "2.0.1", "2.0.2", "2.0.3", "2.1", "2.1.1", "2.2", "3.0", "3.1"},
	// three-component spelling, used by the lockstep family only (c18_lockstep_test.go)
	"c": {"1.0.0", "1.5.0", "2.0.0", "2.0.1", "2.5.0", "2.5.1", "3.0.0", "3.1.0", "3.1.1"},
}

const c18OvrStyles = 5

var c18OvrListsOnce sync.Once
var c18OvrListsErr error

// c18OvrCheckLists asserts the order of the master lists against the reference Maven
// comparator (internal/vergram) and the model order, and the distinctness of the triples.
func c18OvrCheckLists() error {
	c18OvrListsOnce.Do(func() {
		for name, vs := range c18OvrLists {
			for i := range vs {
				for j := i + 1; j < len(vs); j++ {
					c, ok := universe.RefCompareMaven(vs[i], vs[j])
					m, okm := universe.CompareStr(vs[i], vs[j])
					if !ok || !okm || c >= 0 || m >= 0 {
						c18OvrListsErr = fmt.Errorf("harness: master list %s: %q is not below %q (reference %d/%v, model %d/%v)", name, vs[i], vs[j], c, ok, m, okm)
						return
					}
					a, _ := universe.ParseVer(vs[i])
					b, _ := universe.ParseVer(vs[j])
					if universe.Classify(a, b) == universe.DiffSub {
						c18OvrListsErr = fmt.Errorf("harness: master list %s: %q and %q share their numeric triple", name, vs[i], vs[j])
						return
					}
				}
			}
		}
	})
	return c18OvrListsErr
}

// c18OvrIntervals returns the maximal runs of '1' of a mask as [first, last] index pairs.
func c18OvrIntervals(mask string) [][2]int {
	var out [][2]int
	for i := 0; i < len(mask); i++ {
		if mask[i] != '1' {
			continue
		}
		j := i
		for j+1 < len(mask) && mask[j+1] == '1' {
			j++
		}
		out = append(out, [2]int{i, j})
		i = j
	}
	return out
}

// c18OvrRanges realises a mask over the version list V as an affected[] entry.
func c18OvrRanges(V []string, a c18OvrAdvisory) (ranges []universe.OSVRange, versions []string) {
	ivs := c18OvrIntervals(a.Mask)
	type iv struct{ evs []universe.OSVEvent }
	var parts []iv
	for k, x := range ivs {
		first, last := x[0], x[1]
		if a.Style == 4 && first == last {
			versions = append(versions, V[first])
			continue
		}
		var evs []universe.OSVEvent
		if first == 0 && a.Zero {
			evs = append(evs, universe.OSVEvent{Introduced: "0"})
		} else {
			evs = append(evs, universe.OSVEvent{Introduced: V[first]})
		}
		// an interval of one version is never closed by last_affected at that same version
		// (two events at one version are outside the property's well-formed event lists)
		useLast := first < last && (a.Close == 1 || (a.Close == 2 && k%2 == 1))
		switch {
		case useLast:
			evs = append(evs, universe.OSVEvent{LastAffected: V[last]})
		case last+1 < len(V):
			evs = append(evs, universe.OSVEvent{Fixed: V[last+1]})
		}
		parts = append(parts, iv{evs})
	}
	rev := func(evs []universe.OSVEvent) []universe.OSVEvent {
		out := make([]universe.OSVEvent, len(evs))
		for i, e := range evs {
			out[len(evs)-1-i] = e
		}
		return out
	}
	switch a.Style {
	case 0, 1, 4:
		var all []universe.OSVEvent
		for _, p := range parts {
			all = append(all, p.evs...)
		}
		if len(all) == 0 {
			return nil, versions
		}
		if a.Style == 1 {
			all = rev(all)
		}
		return []universe.OSVRange{{Type: "ECOSYSTEM", Events: all}}, versions
	case 2:
		for _, p := range parts {
			ranges = append(ranges, universe.OSVRange{Type: "ECOSYSTEM", Events: p.evs})
		}
	default:
		for i := len(parts) - 1; i >= 0; i-- {
			ranges = append(ranges, universe.OSVRange{Type: "ECOSYSTEM", Events: rev(parts[i].evs)})
		}
	}
	return ranges, versions
}

func c18OvrLibName(i int) string { return fmt.Sprintf("org.example:lib%d", i) }

type c18OvrPlan struct {
	name     string
	V        []string
	recs     []universe.OSV
	affects  [][]bool // [advisory][version index]
	expected map[int]bool
	// evidence
	chain, multiCount, nonMonotone, reopenAbove, anyAllowed bool
	maxIntervals                                            int
}

// c18OvrPlanFor builds the records of one package and runs the reference procedure.
func c18OvrPlanFor(i int, p c18OvrPkg) (*c18OvrPlan, error) {
	master, ok := c18OvrLists[p.List]
	if !ok || p.N < 2 || p.N > len(master) {
		return nil, fmt.Errorf("bad case: package %d: list %q with %d versions", i, p.List, p.N)
	}
	if p.Current < 0 || p.Current >= p.N {
		return nil, fmt.Errorf("bad case: package %d: current version index %d", i, p.Current)
	}
	if p.Level != universe.LevelMajor && p.Level != universe.LevelMinor && p.Level != universe.LevelPatch {
		return nil, fmt.Errorf("bad case: package %d: level %q", i, p.Level)
	}
	if len(p.Advisories) == 0 {
		return nil, fmt.Errorf("bad case: package %d has no advisory", i)
	}
	pl := &c18OvrPlan{name: c18OvrLibName(i), V: master[:p.N], expected: map[int]bool{}}
	vers := make([]universe.Ver, p.N)
	for k, s := range pl.V {
		vers[k], _ = universe.ParseVer(s)
	}
	for k, a := range p.Advisories {
		if len(a.Mask) != p.N || strings.Trim(a.Mask, "01") != "" || !strings.Contains(a.Mask, "1") {
			return nil, fmt.Errorf("bad case: package %d advisory %d: mask %q over %d versions", i, k, a.Mask, p.N)
		}
		if a.Style < 0 || a.Style >= c18OvrStyles || a.Close < 0 || a.Close > 2 {
			return nil, fmt.Errorf("bad case: package %d advisory %d: style %d close %d", i, k, a.Style, a.Close)
		}
		rs, vs := c18OvrRanges(pl.V, a)
		rec := universe.OSV{
			ID:       fmt.Sprintf("VERIF-%d-%d", i, k),
			Affected: []universe.OSVAffected{{Package: universe.OSVPackage{Ecosystem: "Maven", Name: pl.name}, Ranges: rs, Versions: vs}},
		}
		row := make([]bool, p.N)
		for x := range pl.V {
			row[x] = universe.Affected(rec, "Maven", pl.name, pl.V[x])
			if row[x] != (a.Mask[x] == '1') {
				return nil, fmt.Errorf("harness: package %d advisory %d: mask %s says version %s affected=%v, the reference evaluator says %v for %s", i, k, a.Mask, pl.V[x], a.Mask[x] == '1', row[x], c18OvrDescribe(rec))
			}
		}
		pl.recs = append(pl.recs, rec)
		pl.affects = append(pl.affects, row)
		ivs := c18OvrIntervals(a.Mask)
		pl.maxIntervals = max(pl.maxIntervals, len(ivs))
		if len(ivs) >= 2 && ivs[len(ivs)-1][0] > p.Current {
			pl.reopenAbove = true
		}
	}
	allowed := func(from, to int) bool {
		return universe.LevelAllows(p.Level, universe.Classify(vers[from], vers[to]))
	}
	pl.anyAllowed = p.Current+1 < p.N && allowed(p.Current, p.Current+1)

	// the reference procedure
	attempt := func(ids map[int]bool) int {
		v := p.Current
		for {
			var L []int
			for id := range ids {
				if pl.affects[id][v] {
					L = append(L, id)
				}
			}
			if len(L) == 0 {
				return v
			}
			if len(L) >= 2 {
				pl.multiCount = true
			}
			best, bestV := len(L), v
			for c := v + 1; c < p.N; c++ {
				if !allowed(v, c) {
					break
				}
				n := 0
				for _, id := range L {
					if pl.affects[id][c] {
						n++
					}
				}
				if n < best {
					best, bestV = n, c
					if best == 0 {
						break
					}
				}
			}
			if best == len(L) {
				return v
			}
			// would a later allowed version be affected again by something the choice removed?
			for c := bestV + 1; c < p.N && allowed(v, c); c++ {
				for _, id := range L {
					if !pl.affects[id][bestV] && pl.affects[id][c] {
						pl.nonMonotone = true
					}
				}
			}
			v = bestV
		}
	}
	var queue []map[int]bool
	for id := range pl.affects {
		if pl.affects[id][p.Current] {
			queue = append(queue, map[int]bool{id: true})
		}
	}
	for len(queue) > 0 {
		ids := queue[0]
		queue = queue[1:]
		v := attempt(ids)
		if v == p.Current {
			continue
		}
		pl.expected[v] = true
		next := map[int]bool{}
		grew := false
		for id := range ids {
			next[id] = true
		}
		for id := range pl.affects {
			if pl.affects[id][v] && !pl.affects[id][p.Current] && !ids[id] {
				next[id] = true
				grew = true
			}
		}
		if grew {
			pl.chain = true
			queue = append(queue, next)
		}
	}
	return pl, nil
}

func c18OvrDescribe(r universe.OSV) string {
	b, _ := json.Marshal(struct {
		R []universe.OSVRange `json:"ranges,omitempty"`
		V []string            `json:"versions,omitempty"`
	}{r.Affected[0].Ranges, r.Affected[0].Versions})
	return r.ID + " " + string(b)
}

type c18OvrResult struct {
	Outcome ev.Outcome
	Err     error
}

// c18OvrRun decides every package of the case in one run.
func c18OvrRun(c c18OvrCase) ([]c18OvrResult, error) {
	if err := c18OvrCheckLists(); err != nil {
		return nil, err
	}
	if len(c.Packages) == 0 {
		return nil, fmt.Errorf("bad case: no packages")
	}
	var pkgs []c18Pkg
	var deps []universe.Requirement
	var recs []universe.OSV
	levels := universe.Levels{Default: universe.LevelMajor, Packages: map[string]string{}}
	plans := make([]*c18OvrPlan, len(c.Packages))
	byName := map[string]int{}
	for i, p := range c.Packages {
		pl, err := c18OvrPlanFor(i, p)
		if err != nil {
			return nil, err
		}
		plans[i] = pl
		byName[pl.name] = i
		pkgs = append(pkgs, c18Pkg{Name: pl.name, Versions: pl.V})
		deps = append(deps, universe.Requirement{Name: pl.name, Req: pl.V[p.Current]})
		recs = append(recs, pl.recs...)
		levels.Packages[pl.name] = p.Level
	}
	s := c18Scenario(universe.Maven, pkgs, deps, recs, levels)
	run, err := c18RunScenario(s, 0)
	if err != nil {
		return nil, err
	}
	if len(run.Nodes) != len(c.Packages) {
		return nil, fmt.Errorf("harness: the graph holds %v, expected one node per package", run.Nodes)
	}
	for _, n := range run.Nodes {
		i, ok := byName[n[0]]
		if !ok || plans[i].V[c.Packages[i].Current] != n[1] {
			return nil, fmt.Errorf("harness: unexpected node %s@%s", n[0], n[1])
		}
	}
	// the reported targets per package
	got := make([]map[string]bool, len(c.Packages))
	for i := range got {
		got[i] = map[string]bool{}
	}
	shapeErr := make([]error, len(c.Packages))
	for _, p := range run.Patches {
		for _, u := range p.PackageUpdates {
			i, ok := byName[u.Name]
			if !ok {
				return nil, fmt.Errorf("a patch updates %s, which no manifest requirement names: %+v", u.Name, p.PackageUpdates)
			}
			if len(p.PackageUpdates) != 1 && shapeErr[i] == nil {
				shapeErr[i] = fmt.Errorf("a patch carries %d updates (%+v); every attempt concerns one package, whose requirement alone may change", len(p.PackageUpdates), universe.UpdatesOf(p.PackageUpdates))
			}
			if cur := plans[i].V[c.Packages[i].Current]; u.VersionFrom != cur && shapeErr[i] == nil {
				shapeErr[i] = fmt.Errorf("a patch updates %s from %q, the manifest requires %q", u.Name, u.VersionFrom, cur)
			}
			got[i][u.VersionTo] = true
		}
	}
	out := make([]c18OvrResult, len(c.Packages))
	for i, p := range c.Packages {
		pl := plans[i]
		want := map[string]bool{}
		for v := range pl.expected {
			want[pl.V[v]] = true
		}
		cls := []string{
			fmt.Sprintf("ovr_versions_%d", p.N), "ovr_list_" + p.List, "ovr_level_" + p.Level,
			fmt.Sprintf("ovr_advisories_%d", len(p.Advisories)), fmt.Sprintf("ovr_max_intervals_%d", min(pl.maxIntervals, 4)),
		}
		for _, a := range p.Advisories {
			cls = append(cls, fmt.Sprintf("ovr_style_%d", a.Style), fmt.Sprintf("ovr_close_%d", a.Close))
		}
		if len(want) > 0 {
			cls = append(cls, "ovr_expected_patch")
		} else {
			cls = append(cls, "ovr_expected_no_patch")
		}
		if len(want) >= 2 {
			cls = append(cls, "ovr_expected_several_targets")
		}
		if pl.chain {
			cls = append(cls, "ovr_chain_of_introduced")
		}
		if pl.multiCount {
			cls = append(cls, "ovr_step_with_several_advisories")
		}
		if pl.nonMonotone {
			cls = append(cls, "ovr_affected_again_above_choice")
		}
		if pl.reopenAbove {
			cls = append(cls, "ovr_reopens_above_current")
		}
		if !pl.anyAllowed {
			cls = append(cls, "ovr_no_allowed_version")
		}
		o := ev.Outcome{Classes: cls, NonTrivial: pl.reopenAbove && pl.anyAllowed}
		b, _ := json.Marshal(p)
		o.Key = "ovr:" + string(b)
		res := c18OvrResult{Outcome: o}
		switch {
		case shapeErr[i] != nil:
			res.Err = fmt.Errorf("override, %s: %w", pl.name, shapeErr[i])
		case c18SortedKeys(got[i]) != c18SortedKeys(want):
			res.Err = fmt.Errorf("override, %s at %s (versions %v, level %s): patches go to %s, the OSV evaluation of the advisories says %s; advisories: %s",
				pl.name, pl.V[p.Current], pl.V, p.Level, c18SortedKeys(got[i]), c18SortedKeys(want), c18OvrDescribeAll(pl, p))
		}
		out[i] = res
	}
	return out, nil
}

func c18OvrDescribeAll(pl *c18OvrPlan, p c18OvrPkg) string {
	var parts []string
	for k, r := range pl.recs {
		parts = append(parts, fmt.Sprintf("%s affects %s", c18OvrDescribe(r), p.Advisories[k].Mask))
	}
	return strings.Join(parts, " | ")
}

func propC18Ovr(c c18OvrCase) (ev.Outcome, error) {
	if c.Leg != c18OvrLeg {
		return ev.Outcome{}, fmt.Errorf("bad case: not a case of the override leg (leg %q)", c.Leg)
	}
	rs, err := c18OvrRun(c)
	if err != nil {
		return ev.Outcome{}, err
	}
	var o ev.Outcome
	for _, r := range rs {
		o.NonTrivial = o.NonTrivial || r.Outcome.NonTrivial
		o.Classes = append(o.Classes, r.Outcome.Classes...)
		if r.Err != nil {
			return o, r.Err
		}
	}
	return o, nil
}

func c18OvrRunSafe(c c18OvrCase) (rs []c18OvrResult, err error) {
	defer func() {
		if r := recover(); r != nil {
			err = fmt.Errorf("panic: %v", r)
		}
	}()
	return c18OvrRun(c)
}

func c18OvrMask(bits, n int) string {
	b := make([]byte, n)
	for i := range b {
		if bits&(1<<i) != 0 {
			b[i] = '1'
		} else {
			b[i] = '0'
		}
	}
	return string(b)
}

func TestC18_override(t *testing.T) {
	col := ev.Get("C18")
	completed := false
	defer func() { col.Flush(completed) }()
	if ev.Replaying() {
		var probe c18OvrCase
		err := ev.ReplayCase(os.Getenv("VERIF_REPLAY"), &probe)
		if err == nil && probe.Leg == c18GrpLeg {
			if ev.HandleReplay(t, col, propC18Grp) {
				completed = true
				return
			}
		}
		if err != nil || probe.Leg != c18OvrLeg {
			t.Skip("replay file is not for the override leg")
		}
	}
	if ev.HandleReplay(t, col, propC18Ovr) {
		completed = true
		return
	}
	e := ev.NewEnumerator(t, col)
	e.Cap = 5
	thorough := ev.Thorough()
	col.SetExhaustive(thorough)
	shard, shards := ev.Shard()
	rng := &c18Rng{s: ev.Seed() ^ 0x0c180c18}
	levels := []string{universe.LevelMajor, universe.LevelMinor, universe.LevelPatch}
	lists := []string{"a", "b"}

	var all []c18OvrPkg
	n := 0
	add := func(p c18OvrPkg) {
		n++
		if n%shards == shard {
			all = append(all, p)
		}
	}
	adv := func(bits, nv, k int) c18OvrAdvisory {
		return c18OvrAdvisory{Mask: c18OvrMask(bits, nv), Style: k % c18OvrStyles, Close: (k / c18OvrStyles) % 3, Zero: (k/2)%2 == 0}
	}
	// a random mask over nv versions; mustCur: the current version is affected
	randMask := func(nv, cur int, mustCur bool) int {
		for {
			m := rng.intn(1 << nv)
			if mustCur {
				m |= 1 << cur
			}
			if m != 0 {
				return m
			}
		}
	}
	if thorough {
		k := 0
		for _, l := range lists {
			for nv := 4; nv <= 9; nv++ {
				for cur := 0; cur <= 1; cur++ {
					for m := 0; m < 1<<nv; m++ {
						if m&(1<<cur) == 0 {
							continue
						}
						for _, lv := range levels {
							k++
							add(c18OvrPkg{List: l, N: nv, Current: cur, Level: lv, Advisories: []c18OvrAdvisory{adv(m, nv, k)}})
						}
					}
				}
			}
		}
		for _, l := range lists {
			for nv := 4; nv <= 6; nv++ {
				for cur := 0; cur <= 1; cur++ {
					for m1 := 0; m1 < 1<<nv; m1++ {
						if m1&(1<<cur) == 0 {
							continue
						}
						for m2 := 1; m2 < 1<<nv; m2++ {
							for _, lv := range levels {
								k++
								add(c18OvrPkg{List: l, N: nv, Current: cur, Level: lv, Advisories: []c18OvrAdvisory{adv(m1, nv, k), adv(m2, nv, k/3+1)}})
							}
						}
					}
				}
			}
		}
	}
	samples := [3]int{1000, 700, 500} // one, two, three advisories
	if thorough {
		samples = [3]int{0, 40000, 40000}
	}
	for na, cnt := range samples {
		for i := 0; i < cnt; i++ {
			nv := 4 + rng.intn(6)
			cur := rng.intn(2)
			p := c18OvrPkg{List: lists[rng.intn(2)], N: nv, Current: cur, Level: levels[rng.intn(3)]}
			for a := 0; a <= na; a++ {
				p.Advisories = append(p.Advisories, adv(randMask(nv, cur, a == 0), nv, rng.intn(1000)))
			}
			if na >= 1 && rng.intn(2) == 0 {
				// by construction: the later advisories spare the current version and affect
				// the first version above it that the first advisory spares, so that the
				// follow-up attempt meets several advisories on one version
				first := p.Advisories[0].Mask
				if tA := strings.IndexByte(first[cur+1:], '0'); tA >= 0 {
					tA += cur + 1
					for a := 1; a <= na; a++ {
						m := []byte(p.Advisories[a].Mask)
						m[cur], m[tA] = '0', '1'
						p.Advisories[a].Mask = string(m)
					}
				}
			}
			add(p)
		}
	}
	col.SetExtra("override_scenarios", fmt.Sprint(len(all)))

	const batch = 8
	for lo := 0; lo < len(all); lo += batch {
		hi := min(lo+batch, len(all))
		c := c18OvrCase{Leg: c18OvrLeg, Packages: all[lo:hi]}
		rs, err := c18OvrRunSafe(c)
		if err != nil {
			single := c
			for _, p := range c.Packages {
				one := c18OvrCase{Leg: c18OvrLeg, Packages: []c18OvrPkg{p}}
				if _, e1 := c18OvrRunSafe(one); e1 != nil {
					single, err = one, e1
					break
				}
			}
			if !e.Report(single, ev.Outcome{}, err) {
				return
			}
			continue
		}
		for i, r := range rs {
			one := c18OvrCase{Leg: c18OvrLeg, Packages: []c18OvrPkg{c.Packages[i]}}
			cs := any(one)
			if r.Err != nil {
				if rs1, e1 := c18OvrRunSafe(one); e1 == nil && rs1[0].Err == nil {
					cs = c
				} else if e1 == nil {
					r.Err = rs1[0].Err // the message of the single-package run (lib0)
				}
			}
			if !e.Report(cs, r.Outcome, r.Err) {
				return
			}
		}
	}
	if !c18GrpPhase(t, col, e) {
		return
	}
	completed = true
}
