package manifam

// C18, leg "severity" — the affected-version rule where remediation.MatchVuln applies it.
//
// For a record WITHOUT a top-level severity, remediation/match.go looks for the affected[]
// entry that applies to each vulnerable node of the resolved graph ("Make and match a dummy
// OSV record per affected[] entry to determine which applies") and takes that entry's
// affected[].severity; options.RemediationOptions.MinSeverity ("Minimum vulnerability CVSS
// score to consider") then keeps or drops the vulnerability. Which entry "applies" is an
// affected-version decision, so the property's last sentence binds it: an entry for another
// package or another ecosystem never applies, whatever its ranges say.
//
// Scenario (npm / relax and Maven / override; guided remediation reads no manifest of any
// other ecosystem, PyPI only appears as the foreign ecosystem of an entry): a universe with
// pkg-x and pkg-y (5 versions each, no dependencies), a manifest that pins pkg-x at V[1] and
// pkg-y at V[3], and a batch of records. A record is a sequence of 1..3 affected[] entries;
// an entry is
//
//	target  self (pkg-x) | other (pkg-y, also in the graph) | absent (pkg-z, not in the graph)
//	        | near (a package with a near name) | eco (pkg-x of another ecosystem)
//	cover   which of the two resolved versions V[1], V[3] its versions/ranges cover: xy | x | y | none
//	        (realised by one of 6 range shapes per class: "0" and explicit versions, closing by
//	        fixed / last_affected, re-opening ranges, two ranges, reversed listing, GIT noise)
//	sev     high (CVSS 3.1 vector scoring 9.8) | low (1.8) | none (no affected[].severity)
//
// MinSeverity is 5.0. The run goes end to end through verifhooks.AllPatches (manifest reader,
// resolver, FindVulnerabilities with the reference matcher, MatchVuln); its second result is
// the list of ids that passed MatchVuln.
//
// Oracle (reference OSV evaluator of internal/universe on the nodes of the resolved graph):
// a record that affects no node must not be listed. Otherwise, per affected node, the
// candidate entries are the entries FOR THAT PACKAGE AND ECOSYSTEM that on their own affect
// the node's version; each contributes its severity label. The record is listed exactly when
// no candidate carries a score (unknown severities are always included) or some candidate
// scores >= MinSeverity, i.e. is "high". When a node has several candidates (several entries
// of the same package cover the version) the property does not say which one applies: the
// record is decided only if every choice gives the same verdict, otherwise it is counted as
// ambiguous and skipped. Entries of other packages / ecosystems contribute nothing.
//
// Quick tier: every record of <= 2 entries and a seed-dependent sample of the 3-entry
// records; thorough tier: every record of <= 3 entries (sharded).

import (
	"encoding/json"
	"fmt"
	"os"
	"strings"
	"testing"

	"verifharness/internal/ev"
	"verifharness/internal/universe"
)

const c18SevLeg = "severity"

type c18SevEntry struct {
	Target string `json:"target"` // self | other | absent | near | eco
	Cover  string `json:"cover"`  // xy | x | y | none
	Sev    string `json:"sev"`    // high | low | none
	Shape  int    `json:"shape"`  // which realisation of the cover class (and which near name / foreign ecosystem)
}

type c18SevCase struct {
	Leg         string          `json:"leg"`
	System      string          `json:"system"` // npm | maven
	MinSeverity float64         `json:"min_severity"`
	Records     [][]c18SevEntry `json:"records"`
}

var (
	c18SevTargets = []string{"self", "other", "absent", "near", "eco"}
	c18SevCovers  = []string{"xy", "x", "y", "none"}
	c18SevSevs    = []string{"high", "low", "none"}
)

const (
	c18SevShapes = 6
	// published base scores of the two vectors: 9.8 and 1.8
	c18SevHigh = "CVSS:3.1/AV:N/AC:L/PR:N/UI:N/S:U/C:H/I:H/A:H"
	c18SevLow  = "CVSS:3.1/AV:L/AC:H/PR:H/UI:R/S:U/C:L/I:N/A:N"
	c18SevMin  = 5.0
	c18SevX    = 1 // index of the version pkg-x is pinned at
	c18SevY    = 3 // index of the version pkg-y is pinned at
)

var c18SevVersions = map[string][]string{
	universe.NPM:   {"1.0.0", "1.1.0", "1.2.0-rc.1", "1.2.0", "2.0.0"},
	universe.Maven: {"1.0", "1.1", "1.2-rc-1", "1.2", "2.0"},
}

func c18SevName(system, which string) string {
	if system == universe.Maven {
		return "org.example:pkg-" + which
	}
	return "pkg-" + which
}

// c18SevRanges realises a cover class over the version list V.
func c18SevRanges(V []string, cover string, shape int) (ranges []universe.OSVRange, versions []string, err error) {
	I := func(s string) universe.OSVEvent { return universe.OSVEvent{Introduced: s} }
	F := func(s string) universe.OSVEvent { return universe.OSVEvent{Fixed: s} }
	L := func(s string) universe.OSVEvent { return universe.OSVEvent{LastAffected: s} }
	R := func(evs ...universe.OSVEvent) universe.OSVRange {
		return universe.OSVRange{Type: "ECOSYSTEM", Events: evs}
	}
	shape = ((shape % c18SevShapes) + c18SevShapes) % c18SevShapes
	switch cover {
	case "xy":
		switch shape {
		case 0:
			return []universe.OSVRange{R(I("0"))}, nil, nil
		case 1:
			return []universe.OSVRange{R(I(V[0]), F(V[4]))}, nil, nil
		case 2:
			return []universe.OSVRange{R(I(V[1]), L(V[3]))}, nil, nil
		case 3:
			return nil, []string{V[1], V[3]}, nil
		case 4:
			return []universe.OSVRange{R(I("0"), F(V[2])), R(I(V[3]))}, nil, nil
		default:
			return []universe.OSVRange{R(F(V[4]), I(V[1]))}, nil, nil
		}
	case "x":
		switch shape {
		case 0:
			return []universe.OSVRange{R(I("0"), F(V[2]))}, nil, nil
		case 1:
			return []universe.OSVRange{R(I(V[0]), L(V[1]))}, nil, nil
		case 2:
			return nil, []string{V[1]}, nil
		case 3:
			return []universe.OSVRange{R(I("0"), F(V[3]))}, nil, nil
		case 4:
			return []universe.OSVRange{R(I(V[1]), F(V[2]), I(V[4]))}, nil, nil
		default:
			return []universe.OSVRange{R(L(V[2]), I(V[0]))}, nil, nil
		}
	case "y":
		switch shape {
		case 0:
			return []universe.OSVRange{R(I(V[2]))}, nil, nil
		case 1:
			return []universe.OSVRange{R(I(V[3]), F(V[4]))}, nil, nil
		case 2:
			return []universe.OSVRange{R(I("0"), F(V[1]), I(V[3]))}, nil, nil
		case 3:
			return nil, []string{V[3]}, nil
		case 4:
			return []universe.OSVRange{R(I(V[2]), L(V[3]))}, nil, nil
		default:
			return []universe.OSVRange{R(I(V[4])), R(I(V[2]), L(V[3]))}, nil, nil
		}
	case "none":
		switch shape {
		case 0:
			return []universe.OSVRange{R(I(V[4]))}, nil, nil
		case 1:
			return []universe.OSVRange{R(I("0"), F(V[1]))}, nil, nil
		case 2:
			return []universe.OSVRange{R(I(V[2]), F(V[3]))}, nil, nil
		case 3:
			return nil, []string{V[0], V[2], V[4]}, nil
		case 4:
			return []universe.OSVRange{{Type: "GIT", Events: []universe.OSVEvent{I("0")}}}, nil, nil
		default:
			return []universe.OSVRange{R(I("0"), L(V[0]), I(V[2]), F(V[3]))}, nil, nil
		}
	}
	return nil, nil, fmt.Errorf("bad case: cover class %q", cover)
}

// c18SevEntryOSV builds the affected[] entry.
func c18SevEntryOSV(system string, e c18SevEntry) (universe.OSVAffected, error) {
	V := c18SevVersions[system]
	eco := universe.Ecosystem(system)
	var a universe.OSVAffected
	shape := ((e.Shape % c18SevShapes) + c18SevShapes) % c18SevShapes
	switch e.Target {
	case "self":
		a.Package = universe.OSVPackage{Ecosystem: eco, Name: c18SevName(system, "x")}
	case "other":
		a.Package = universe.OSVPackage{Ecosystem: eco, Name: c18SevName(system, "y")}
	case "absent":
		a.Package = universe.OSVPackage{Ecosystem: eco, Name: c18SevName(system, "z")}
	case "near":
		ns := c18NearNames[eco]
		a.Package = universe.OSVPackage{Ecosystem: eco, Name: ns[shape%len(ns)]}
	case "eco":
		others := map[string][]string{"npm": {"PyPI", "Maven"}, "Maven": {"npm", "PyPI"}}[eco]
		a.Package = universe.OSVPackage{Ecosystem: others[shape%2], Name: c18SevName(system, "x")}
	default:
		return a, fmt.Errorf("bad case: entry target %q", e.Target)
	}
	rs, vs, err := c18SevRanges(V, e.Cover, shape)
	if err != nil {
		return a, err
	}
	a.Ranges, a.Versions = rs, vs
	switch e.Sev {
	case "high":
		a.Severity = []universe.OSVSeverity{{Type: "CVSS_V3", Score: c18SevHigh}}
	case "low":
		a.Severity = []universe.OSVSeverity{{Type: "CVSS_V3", Score: c18SevLow}}
	case "none":
	default:
		return a, fmt.Errorf("bad case: severity label %q", e.Sev)
	}
	return a, nil
}

// c18SevVerdict is the oracle for one record on the resolved nodes: listed / not listed, or
// undecided (several entries of the right package apply and they disagree).
func c18SevVerdict(system string, rec universe.OSV, entries []c18SevEntry, nodes [][2]string) (want, decided, affectsGraph bool) {
	eco := universe.Ecosystem(system)
	// per affected node: the severity labels of its candidate entries
	var perNode [][]string
	for _, n := range nodes {
		if !universe.Affected(rec, eco, n[0], n[1]) {
			continue
		}
		var labels []string
		for i, a := range rec.Affected {
			if a.Package.Ecosystem != eco || a.Package.Name != n[0] {
				continue
			}
			if universe.Affected(universe.OSV{ID: rec.ID, Affected: []universe.OSVAffected{a}}, eco, n[0], n[1]) {
				labels = append(labels, entries[i].Sev)
			}
		}
		perNode = append(perNode, labels)
	}
	if len(perNode) == 0 {
		return false, true, false
	}
	// every choice of one candidate per node
	verdicts := map[bool]bool{}
	var rec2 func(i int, anyScore, anyHigh bool)
	rec2 = func(i int, anyScore, anyHigh bool) {
		if i == len(perNode) {
			verdicts[!anyScore || anyHigh] = true
			return
		}
		for _, l := range perNode[i] {
			rec2(i+1, anyScore || l != "none", anyHigh || l == "high")
		}
	}
	rec2(0, false, false)
	if len(verdicts) != 1 {
		return false, false, true
	}
	return verdicts[true], true, true
}

type c18SevResult struct {
	Outcome ev.Outcome
	Err     error
}

// c18SevRun decides every record of the case in one run.
func c18SevRun(c c18SevCase) ([]c18SevResult, error) {
	V, ok := c18SevVersions[c.System]
	if !ok {
		return nil, fmt.Errorf("bad case: system %q", c.System)
	}
	if len(c.Records) == 0 {
		return nil, fmt.Errorf("bad case: no records")
	}
	recs := make([]universe.OSV, len(c.Records))
	for i, es := range c.Records {
		if len(es) == 0 {
			return nil, fmt.Errorf("bad case: record %d has no entries", i)
		}
		r := universe.OSV{ID: fmt.Sprintf("VERIF-%04d", i)}
		for _, e := range es {
			a, err := c18SevEntryOSV(c.System, e)
			if err != nil {
				return nil, err
			}
			r.Affected = append(r.Affected, a)
		}
		recs[i] = r
	}
	x, y := c18SevName(c.System, "x"), c18SevName(c.System, "y")
	s := c18Scenario(c.System,
		[]c18Pkg{{Name: x, Versions: V}, {Name: y, Versions: V}},
		[]universe.Requirement{{Name: x, Req: V[c18SevX]}, {Name: y, Req: V[c18SevY]}},
		recs, universe.Levels{Default: universe.LevelNone})
	run, err := c18RunScenario(s, c.MinSeverity)
	if err != nil {
		return nil, err
	}
	if len(run.Nodes) != 2 {
		return nil, fmt.Errorf("harness: expected the graph to hold %s@%s and %s@%s, got %v", x, V[c18SevX], y, V[c18SevY], run.Nodes)
	}
	for _, n := range run.Nodes {
		if !(n[0] == x && n[1] == V[c18SevX]) && !(n[0] == y && n[1] == V[c18SevY]) {
			return nil, fmt.Errorf("harness: expected the graph to hold %s@%s and %s@%s, got %v", x, V[c18SevX], y, V[c18SevY], run.Nodes)
		}
	}
	eco := universe.Ecosystem(c.System)
	out := make([]c18SevResult, len(recs))
	for i, r := range recs {
		es := c.Records[i]
		// the cover label of every entry is the generator's intent: hold it against the
		// reference evaluator (entry read as if it were for pkg-x / pkg-y)
		for j, a := range r.Affected {
			probe := a
			probe.Package = universe.OSVPackage{Ecosystem: eco, Name: x}
			one := universe.OSV{ID: r.ID, Affected: []universe.OSVAffected{probe}}
			cx := universe.Affected(one, eco, x, V[c18SevX])
			cy := universe.Affected(one, eco, x, V[c18SevY])
			wantX := es[j].Cover == "xy" || es[j].Cover == "x"
			wantY := es[j].Cover == "xy" || es[j].Cover == "y"
			if cx != wantX || cy != wantY {
				return nil, fmt.Errorf("harness: entry %d of record %d is labelled cover=%s but the reference evaluator says x=%v y=%v", j, i, es[j].Cover, cx, cy)
			}
		}
		want, decided, inGraph := c18SevVerdict(c.System, r, es, run.Nodes)
		o := ev.Outcome{}
		cls := []string{"sev_system_" + c.System, fmt.Sprintf("sev_entries_%d", len(es))}
		foreignCovering, foreignFirst, selfCount := false, false, 0
		seenRight := false
		for _, e := range es {
			right := e.Target == "self" || e.Target == "other"
			if e.Target == "self" {
				selfCount++
			}
			if !right && e.Cover != "none" {
				foreignCovering = true
				cls = append(cls, "sev_foreign_covering_"+e.Target)
				if !seenRight {
					foreignFirst = true
				}
			}
			if right {
				seenRight = true
			}
		}
		switch {
		case !inGraph:
			cls = append(cls, "sev_record_affects_no_node")
		case !decided:
			cls = append(cls, "sev_ambiguous_same_package_entries")
		case want:
			cls = append(cls, "sev_expected_listed")
		default:
			cls = append(cls, "sev_expected_dropped")
		}
		if inGraph && foreignCovering {
			cls = append(cls, "sev_foreign_covering_entry_in_matching_record")
			if foreignFirst {
				cls = append(cls, "sev_foreign_covering_entry_listed_first")
			}
		}
		if selfCount >= 2 {
			cls = append(cls, "sev_two_entries_for_queried_package")
		}
		o.Classes = cls
		// non-trivial: MatchVuln has to pick among >= 2 entries, one of them foreign and covering
		o.NonTrivial = inGraph && decided && len(es) >= 2 && foreignCovering
		b, _ := json.Marshal(struct {
			S string
			M float64
			R []c18SevEntry
		}{c.System, c.MinSeverity, es})
		o.Key = "sev:" + string(b)
		res := c18SevResult{Outcome: o}
		if decided && run.Considered[r.ID] != want {
			res.Err = fmt.Errorf("MatchVuln under MinSeverity %.1f: record %s is %s, the entries for the resolved packages say it must be %s; system %s, graph %v, record: %s",
				c.MinSeverity, r.ID, c18Listed(run.Considered[r.ID]), c18Listed(want), c.System, run.Nodes, c18SevDescribe(r, es))
		}
		out[i] = res
	}
	return out, nil
}

func c18Listed(b bool) string {
	if b {
		return "considered"
	}
	return "dropped"
}

func c18SevDescribe(r universe.OSV, es []c18SevEntry) string {
	var parts []string
	for i, a := range r.Affected {
		b, _ := json.Marshal(struct {
			R []universe.OSVRange `json:"ranges,omitempty"`
			V []string            `json:"versions,omitempty"`
		}{a.Ranges, a.Versions})
		parts = append(parts, fmt.Sprintf("%s/%s severity=%s %s", a.Package.Ecosystem, a.Package.Name, es[i].Sev, b))
	}
	return strings.Join(parts, " | ")
}

// propC18Sev decides a whole case (replay files hold one record).
func propC18Sev(c c18SevCase) (ev.Outcome, error) {
	if c.Leg != c18SevLeg {
		return ev.Outcome{}, fmt.Errorf("bad case: not a case of the severity leg (leg %q)", c.Leg)
	}
	rs, err := c18SevRun(c)
	if err != nil {
		return ev.Outcome{}, err
	}
	var o ev.Outcome
	for _, r := range rs {
		o.NonTrivial = o.NonTrivial || r.Outcome.NonTrivial
		o.Classes = append(o.Classes, r.Outcome.Classes...)
		if r.Err != nil {
			return o, r.Err
		}
	}
	return o, nil
}

// c18SevKinds is every entry kind (target x cover x severity), shape 0.
func c18SevKinds() []c18SevEntry {
	var out []c18SevEntry
	for _, t := range c18SevTargets {
		for _, cv := range c18SevCovers {
			for _, s := range c18SevSevs {
				out = append(out, c18SevEntry{Target: t, Cover: cv, Sev: s})
			}
		}
	}
	return out
}

func TestC18_severity(t *testing.T) {
	col := ev.Get("C18")
	completed := false
	defer func() { col.Flush(completed) }()
	if ev.Replaying() {
		var probe c18SevCase
		if err := ev.ReplayCase(os.Getenv("VERIF_REPLAY"), &probe); err != nil || probe.Leg != c18SevLeg {
			t.Skip("replay file is not for the severity leg")
		}
	}
	if ev.HandleReplay(t, col, propC18Sev) {
		completed = true
		return
	}
	e := ev.NewEnumerator(t, col)
	e.Cap = 5
	thorough := ev.Thorough()
	col.SetExhaustive(thorough)
	shard, shards := ev.Shard()
	kinds := c18SevKinds()
	nk := len(kinds)
	rng := &c18Rng{s: ev.Seed() ^ 0xc18c18}

	// the record with sequence number n: its entry kinds, shapes rotating with n and the position
	record := func(idx []int, n int) []c18SevEntry {
		es := make([]c18SevEntry, len(idx))
		for p, k := range idx {
			es[p] = kinds[k]
			es[p].Shape = (n/7 + 3*p + n) % c18SevShapes
		}
		return es
	}
	var all [][]c18SevEntry
	n := 0
	add := func(idx ...int) {
		n++
		if n%shards == shard {
			all = append(all, record(idx, n))
		}
	}
	for a := 0; a < nk; a++ {
		add(a)
	}
	for a := 0; a < nk; a++ {
		for b := 0; b < nk; b++ {
			add(a, b)
		}
	}
	if thorough {
		for a := 0; a < nk; a++ {
			for b := 0; b < nk; b++ {
				for c := 0; c < nk; c++ {
					add(a, b, c)
				}
			}
		}
	} else {
		// sampled 3-entry records: by construction one entry (at a random position) is for a
		// package of the graph and covers its resolved version, the other two are any kinds
		kindOf := func(target, cover, sev int) int { return (target*len(c18SevCovers)+cover)*len(c18SevSevs) + sev }
		for i := 0; i < 2400; i++ {
			idx := []int{rng.intn(nk), rng.intn(nk), rng.intn(nk)}
			tgt := rng.intn(2)      // self | other
			cov := []int{1, 2}[tgt] // x for self, y for other
			if rng.intn(2) == 0 {
				cov = 0 // xy
			}
			idx[rng.intn(3)] = kindOf(tgt, cov, rng.intn(len(c18SevSevs)))
			add(idx...)
		}
	}
	col.SetExtra("severity_records_per_system", fmt.Sprint(len(all)))

	const batch = 40
	for _, system := range []string{universe.NPM, universe.Maven} {
		for lo := 0; lo < len(all); lo += batch {
			hi := min(lo+batch, len(all))
			c := c18SevCase{Leg: c18SevLeg, System: system, MinSeverity: c18SevMin, Records: all[lo:hi]}
			rs, err := c18SevRunSafe(c)
			if err != nil {
				// the run itself failed: find a single record that reproduces it
				single := c
				for _, es := range c.Records {
					one := c18SevCase{Leg: c18SevLeg, System: system, MinSeverity: c18SevMin, Records: [][]c18SevEntry{es}}
					if _, e1 := c18SevRunSafe(one); e1 != nil {
						single, err = one, e1
						break
					}
				}
				if !e.Report(single, ev.Outcome{}, err) {
					return
				}
				continue
			}
			for i, r := range rs {
				one := c18SevCase{Leg: c18SevLeg, System: system, MinSeverity: c18SevMin, Records: [][]c18SevEntry{c.Records[i]}}
				cs := any(one)
				if r.Err != nil {
					// file the record on its own when it fails on its own, else the batch
					if rs1, e1 := c18SevRunSafe(one); e1 == nil && rs1[0].Err == nil {
						cs = c
					}
				}
				if !e.Report(cs, r.Outcome, r.Err) {
					return
				}
			}
		}
	}
	completed = true
}

func c18SevRunSafe(c c18SevCase) (rs []c18SevResult, err error) {
	defer func() {
		if r := recover(); r != nil {
			err = fmt.Errorf("panic: %v", r)
		}
	}()
	return c18SevRun(c)
}
