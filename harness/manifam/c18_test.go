package manifam

// C18 — affected-version decisions follow the OSV range rules.
//
// Exhaustive enumeration. Per ecosystem (npm, Maven, PyPI) a fixed ordered set of 7
// versions; every well-formed event list (strictly increasing versions, alternating
// introduced / {fixed | last_affected}, starting with introduced, "0" allowed as the first
// introduced) in every listing order, wrapped in a set of record shapes (range types,
// 1-2 ranges, 1-2 affected entries, explicit version lists, other package / ecosystem), and
// every queried version of the set. The oracle is the OSV evaluation pseudo-code over
// version INDICES (DESIGN Appendix A.4): it never parses a version string.

import (
	"fmt"
	"sort"
	"testing"

	"deps.dev/util/resolve"
	"github.com/google/osv-scalibr/guidedremediation/verifhooks"
	"github.com/ossf/osv-schema/bindings/go/osvschema"

	"verifharness/internal/ev"
)

// The canonical version sets. Their order is the ecosystem's documented order (SemVer 2.0
// precedence; Maven ComparableVersion; PEP 440) and is asserted here by position only.
// The smallest version of each set is a pre-release of 0, which the ecosystem orders BELOW
// the plain version "0": the OSV literal "0" must nevertheless precede it.
var c18Versions = map[string][]string{
	"npm":   {"0.0.0-alpha", "1.0.0-alpha.1", "1.0.0-beta", "1.0.0", "1.2.0", "1.10.0", "2.0.0"},
	"Maven": {"0-alpha-1", "1.0-alpha-1", "1.0-beta-1", "1.0", "1.0.1", "1.9", "1.10"},
	"PyPI":  {"0.dev1", "1.0.dev1", "1.0a1", "1.0rc1", "1.0", "1.0.post1", "1.10"},
}

var c18Systems = map[string]resolve.System{"npm": resolve.NPM, "Maven": resolve.Maven, "PyPI": resolve.PyPI}

var c18Names = map[string]string{"npm": "pkg-x", "Maven": "org.example:pkg-x", "PyPI": "pkg-x"}
var c18OtherNames = map[string]string{"npm": "pkg-y", "Maven": "org.example:pkg-y", "PyPI": "pkg-y"}
// c18NearNames are other packages whose names are close to the queried one: a case variant
// (npm and Maven names are case-sensitive), a longer and a shorter name, surrounding space.
var c18NearNames = map[string][]string{
	"npm":   {"Pkg-X", "pkg-x2", "pkg-", " pkg-x", "@pkg-x/pkg-x"},
	"Maven": {"org.example:Pkg-x", "org.Example:pkg-x", "org.example:pkg-x2", "org.example:pkg-x:jar", "example:pkg-x"},
	"PyPI":  {"pkg-x2", "pkg-", " pkg-x", "pkg-x "},
}

var c18OtherEco = map[string]string{"npm": "PyPI", "Maven": "npm", "PyPI": "Maven"}

const c18NVers = 7

type c18Event struct {
	Kind string `json:"kind"` // introduced | fixed | last_affected
	Ver  int    `json:"ver"`  // index into the version set; -1 is the literal "0"
}

type c18Range struct {
	Type   string     `json:"type"`   // ECOSYSTEM | SEMVER | GIT
	Events []c18Event `json:"events"` // in LISTED order
}

type c18Affected struct {
	Eco      string     `json:"eco"`
	Name     string     `json:"name"`
	Ranges   []c18Range `json:"ranges,omitempty"`
	Versions []int      `json:"versions,omitempty"`
}

type c18Case struct {
	Eco      string        `json:"eco"`   // ecosystem of the queried package
	Name     string        `json:"name"`  // name of the queried package
	Query    int           `json:"query"` // index of the queried version
	Variant  string        `json:"variant"`
	Affected []c18Affected `json:"affected"`
}

// c18Ref is DESIGN A.4, literally, over indices.
func c18Ref(c c18Case) bool {
	v := c.Query
	for _, a := range c.Affected {
		if a.Eco != c.Eco || a.Name != c.Name {
			continue
		}
		for _, x := range a.Versions {
			if x == v {
				return true
			}
		}
		for _, r := range a.Ranges {
			if !(r.Type == "ECOSYSTEM" || (r.Type == "SEMVER" && c.Eco == "npm")) {
				continue
			}
			evs := append([]c18Event(nil), r.Events...)
			sort.SliceStable(evs, func(i, j int) bool { return evs[i].Ver < evs[j].Ver })
			vulnerable := false
			for _, e := range evs {
				switch {
				case e.Kind == "introduced" && v >= e.Ver:
					vulnerable = true
				case e.Kind == "fixed" && v >= e.Ver:
					vulnerable = false
				case e.Kind == "last_affected" && v > e.Ver:
					vulnerable = false
				}
			}
			if vulnerable {
				return true
			}
		}
	}
	return false
}

func c18VerString(eco string, i int) string {
	if i < 0 {
		return "0"
	}
	// the version strings of a record are those of the record's own ecosystem when it
	// has a set, otherwise those of the queried ecosystem
	return c18Versions[eco][i]
}

func c18Build(c c18Case) (*osvschema.Vulnerability, resolve.VersionKey, error) {
	if _, ok := c18Versions[c.Eco]; !ok {
		return nil, resolve.VersionKey{}, fmt.Errorf("bad case: ecosystem %q", c.Eco)
	}
	if c.Query < 0 || c.Query >= c18NVers {
		return nil, resolve.VersionKey{}, fmt.Errorf("bad case: query %d", c.Query)
	}
	vuln := &osvschema.Vulnerability{ID: "VERIF-C18", SchemaVersion: "1.6.0"}
	for _, a := range c.Affected {
		vs, ok := c18Versions[a.Eco]
		if !ok {
			return nil, resolve.VersionKey{}, fmt.Errorf("bad case: ecosystem %q", a.Eco)
		}
		_ = vs
		aff := osvschema.Affected{Package: osvschema.Package{Ecosystem: a.Eco, Name: a.Name}}
		for _, x := range a.Versions {
			if x < 0 || x >= c18NVers {
				return nil, resolve.VersionKey{}, fmt.Errorf("bad case: version index %d", x)
			}
			aff.Versions = append(aff.Versions, c18VerString(a.Eco, x))
		}
		for _, r := range a.Ranges {
			rr := osvschema.Range{Type: osvschema.RangeType(r.Type)}
			if r.Type == "GIT" {
				rr.Repo = "https://example.com/repo.git"
			}
			for _, e := range r.Events {
				if e.Ver < -1 || e.Ver >= c18NVers {
					return nil, resolve.VersionKey{}, fmt.Errorf("bad case: version index %d", e.Ver)
				}
				s := c18VerString(a.Eco, e.Ver)
				// each event is its own object with exactly one field (OSV schema)
				switch e.Kind {
				case "introduced":
					rr.Events = append(rr.Events, osvschema.Event{Introduced: s})
				case "fixed":
					rr.Events = append(rr.Events, osvschema.Event{Fixed: s})
				case "last_affected":
					rr.Events = append(rr.Events, osvschema.Event{LastAffected: s})
				default:
					return nil, resolve.VersionKey{}, fmt.Errorf("bad case: event kind %q", e.Kind)
				}
			}
			aff.Ranges = append(aff.Ranges, rr)
		}
		vuln.Affected = append(vuln.Affected, aff)
	}
	vk := resolve.VersionKey{
		PackageKey:  resolve.PackageKey{System: c18Systems[c.Eco], Name: c.Name},
		VersionType: resolve.Concrete,
		Version:     c18Versions[c.Eco][c.Query],
	}
	return vuln, vk, nil
}

// c18WellFormed re-checks the domain on the case itself (replay files are hand-editable):
// every range's events, once ordered, have strictly increasing versions, alternate
// introduced / closing, and start with introduced; "0" only as an introduced event.
func c18WellFormed(c c18Case) error {
	for _, a := range c.Affected {
		for _, r := range a.Ranges {
			evs := append([]c18Event(nil), r.Events...)
			sort.SliceStable(evs, func(i, j int) bool { return evs[i].Ver < evs[j].Ver })
			for i, e := range evs {
				if i > 0 && evs[i-1].Ver == e.Ver {
					return fmt.Errorf("bad case: two events at version index %d", e.Ver)
				}
				wantIntro := i%2 == 0
				if wantIntro != (e.Kind == "introduced") {
					return fmt.Errorf("bad case: events do not alternate starting with introduced")
				}
				if e.Ver == -1 && e.Kind != "introduced" {
					return fmt.Errorf("bad case: \"0\" used for a %s event", e.Kind)
				}
			}
		}
	}
	return nil
}

func propC18(c c18Case) (ev.Outcome, error) {
	if err := c18WellFormed(c); err != nil {
		return ev.Outcome{}, err
	}
	vuln, vk, err := c18Build(c)
	if err != nil {
		return ev.Outcome{}, err
	}
	want := c18Ref(c)
	got := verifhooks.IsAffected(vuln, vk)

	// evidence: classes and the non-triviality rule (>= 2 events in some range of the
	// queried package and the query strictly inside the span of its event versions)
	o := ev.Outcome{}
	cls := []string{"eco_" + c.Eco, "variant_" + c.Variant}
	maxLen := 0
	anyOnEvent := false
	for _, a := range c.Affected {
		if a.Eco != c.Eco || a.Name != c.Name {
			continue
		}
		for _, r := range a.Ranges {
			if len(r.Events) > maxLen {
				maxLen = len(r.Events)
			}
			lo, hi := c18NVers, -2
			onEvent := false
			for _, e := range r.Events {
				if e.Ver < lo {
					lo = e.Ver
				}
				if e.Ver > hi {
					hi = e.Ver
				}
				if e.Ver == c.Query {
					onEvent = true
				}
			}
			if len(r.Events) >= 2 && c.Query > lo && c.Query < hi {
				o.NonTrivial = true
			}
			if onEvent {
				anyOnEvent = true
			}
		}
	}
	if anyOnEvent {
		cls = append(cls, "query_on_event")
	}
	cls = append(cls, fmt.Sprintf("max_events_%d", maxLen))
	if want {
		cls = append(cls, "expected_affected")
	} else {
		cls = append(cls, "expected_unaffected")
	}
	o.Classes = cls
	if got != want {
		return o, fmt.Errorf("IsAffected(%s %s@%s) = %v, OSV evaluation says %v; record: %s", c.Eco, c.Name, vk.Version, got, want, c18Describe(c))
	}
	return o, nil
}

func c18Describe(c c18Case) string {
	s := ""
	for i, a := range c.Affected {
		if i > 0 {
			s += " | "
		}
		s += a.Eco + "/" + a.Name
		if len(a.Versions) > 0 {
			s += " versions["
			for j, x := range a.Versions {
				if j > 0 {
					s += ","
				}
				s += c18VerString(a.Eco, x)
			}
			s += "]"
		}
		for _, r := range a.Ranges {
			s += " " + r.Type + "["
			for j, e := range r.Events {
				if j > 0 {
					s += ", "
				}
				s += e.Kind + " " + c18VerString(a.Eco, e.Ver)
			}
			s += "]"
		}
	}
	return s
}

// c18Lists returns every well-formed event list of length 1..maxLen in version order.
func c18Lists(maxLen int) [][]c18Event {
	var out [][]c18Event
	var rec func(cur []c18Event, next int)
	rec = func(cur []c18Event, next int) {
		if len(cur) > 0 {
			out = append(out, append([]c18Event(nil), cur...))
		}
		if len(cur) == maxLen {
			return
		}
		intro := len(cur)%2 == 0
		lo := next
		for v := lo; v < c18NVers; v++ {
			if v == -1 && len(cur) != 0 {
				continue
			}
			if intro {
				rec(append(cur, c18Event{Kind: "introduced", Ver: v}), v+1)
			} else {
				rec(append(cur, c18Event{Kind: "fixed", Ver: v}), v+1)
				rec(append(cur, c18Event{Kind: "last_affected", Ver: v}), v+1)
			}
		}
	}
	rec(nil, -1)
	return out
}

// c18Perms returns all permutations of 0..n-1 (identity first, reversal second).
func c18Perms(n int) [][]int {
	var out [][]int
	idx := make([]int, n)
	for i := range idx {
		idx[i] = i
	}
	var rec func(k int)
	rec = func(k int) {
		if k == n {
			out = append(out, append([]int(nil), idx...))
			return
		}
		for i := k; i < n; i++ {
			idx[k], idx[i] = idx[i], idx[k]
			rec(k + 1)
			idx[k], idx[i] = idx[i], idx[k]
		}
	}
	rec(0)
	// move the reversal to position 1
	rev := make([]int, n)
	for i := range rev {
		rev[i] = n - 1 - i
	}
	for i, p := range out {
		same := true
		for j := range p {
			if p[j] != rev[j] {
				same = false
				break
			}
		}
		if same && i > 1 {
			out[1], out[i] = out[i], out[1]
			break
		}
	}
	return out
}

func c18Apply(list []c18Event, perm []int) []c18Event {
	out := make([]c18Event, len(list))
	for i, p := range perm {
		out[i] = list[p]
	}
	return out
}

type c18Variant struct {
	name    string
	npmOnly bool
	full    bool // enumerated over all listing orders also in the quick tier
	build   func(eco string, primary []c18Event) []c18Affected
}

func c18VariantList() []c18Variant {
	always := []c18Event{{Kind: "introduced", Ver: -1}}
	fromFive := []c18Event{{Kind: "introduced", Ver: 5}}
	belowTwo := []c18Event{{Kind: "fixed", Ver: 2}, {Kind: "introduced", Ver: -1}} // listed in reverse
	one := func(eco, name string, rs ...c18Range) c18Affected {
		return c18Affected{Eco: eco, Name: name, Ranges: rs}
	}
	return []c18Variant{
		{name: "ecosystem", full: true, build: func(eco string, p []c18Event) []c18Affected {
			return []c18Affected{one(eco, c18Names[eco], c18Range{Type: "ECOSYSTEM", Events: p})}
		}},
		{name: "semver", npmOnly: true, full: true, build: func(eco string, p []c18Event) []c18Affected {
			return []c18Affected{one(eco, c18Names[eco], c18Range{Type: "SEMVER", Events: p})}
		}},
		{name: "git_only", build: func(eco string, p []c18Event) []c18Affected {
			return []c18Affected{one(eco, c18Names[eco], c18Range{Type: "GIT", Events: p})}
		}},
		{name: "git_then_ecosystem", build: func(eco string, p []c18Event) []c18Affected {
			return []c18Affected{one(eco, c18Names[eco], c18Range{Type: "GIT", Events: always}, c18Range{Type: "ECOSYSTEM", Events: p})}
		}},
		{name: "ecosystem_then_git", build: func(eco string, p []c18Event) []c18Affected {
			return []c18Affected{one(eco, c18Names[eco], c18Range{Type: "ECOSYSTEM", Events: p}, c18Range{Type: "GIT", Events: always})}
		}},
		{name: "two_ranges_primary_first", build: func(eco string, p []c18Event) []c18Affected {
			return []c18Affected{one(eco, c18Names[eco], c18Range{Type: "ECOSYSTEM", Events: p}, c18Range{Type: "ECOSYSTEM", Events: fromFive})}
		}},
		{name: "two_ranges_primary_second", build: func(eco string, p []c18Event) []c18Affected {
			return []c18Affected{one(eco, c18Names[eco], c18Range{Type: "ECOSYSTEM", Events: belowTwo}, c18Range{Type: "ECOSYSTEM", Events: p})}
		}},
		{name: "semver_and_ecosystem", npmOnly: true, build: func(eco string, p []c18Event) []c18Affected {
			return []c18Affected{one(eco, c18Names[eco], c18Range{Type: "SEMVER", Events: p}, c18Range{Type: "ECOSYSTEM", Events: fromFive})}
		}},
		{name: "other_package_first", build: func(eco string, p []c18Event) []c18Affected {
			return []c18Affected{one(eco, c18OtherNames[eco], c18Range{Type: "ECOSYSTEM", Events: always}), one(eco, c18Names[eco], c18Range{Type: "ECOSYSTEM", Events: p})}
		}},
		{name: "other_ecosystem_last", build: func(eco string, p []c18Event) []c18Affected {
			return []c18Affected{one(eco, c18Names[eco], c18Range{Type: "ECOSYSTEM", Events: p}), one(c18OtherEco[eco], c18Names[eco], c18Range{Type: "ECOSYSTEM", Events: always})}
		}},
		{name: "other_package_only", build: func(eco string, p []c18Event) []c18Affected {
			return []c18Affected{one(eco, c18OtherNames[eco], c18Range{Type: "ECOSYSTEM", Events: p})}
		}},
		{name: "other_ecosystem_only", build: func(eco string, p []c18Event) []c18Affected {
			a := one(c18OtherEco[eco], c18Names[eco], c18Range{Type: "ECOSYSTEM", Events: p})
			a.Versions = []int{0, 1, 2, 3, 4, 5, 6}
			return []c18Affected{a}
		}},
		{name: "explicit_versions", build: func(eco string, p []c18Event) []c18Affected {
			a := one(eco, c18Names[eco], c18Range{Type: "ECOSYSTEM", Events: p})
			a.Versions = []int{1, 4}
			return []c18Affected{a}
		}},
		{name: "explicit_versions_descending", build: func(eco string, p []c18Event) []c18Affected {
			a := one(eco, c18Names[eco], c18Range{Type: "ECOSYSTEM", Events: p})
			a.Versions = []int{4, 1}
			return []c18Affected{a}
		}},
		{name: "explicit_versions_unordered", build: func(eco string, p []c18Event) []c18Affected {
			a := one(eco, c18Names[eco], c18Range{Type: "ECOSYSTEM", Events: p})
			a.Versions = []int{5, 0, 3, 6, 2}
			return []c18Affected{a}
		}},
		{name: "explicit_versions_repeated", build: func(eco string, p []c18Event) []c18Affected {
			a := one(eco, c18Names[eco], c18Range{Type: "ECOSYSTEM", Events: p})
			a.Versions = []int{2, 6, 2, 0}
			return []c18Affected{a}
		}},
		{name: "explicit_versions_other_package", build: func(eco string, p []c18Event) []c18Affected {
			o := c18Affected{Eco: eco, Name: c18OtherNames[eco], Versions: []int{0, 1, 2, 3, 4, 5, 6}}
			return []c18Affected{o, one(eco, c18Names[eco], c18Range{Type: "ECOSYSTEM", Events: p})}
		}},
		{name: "near_name_only", build: func(eco string, p []c18Event) []c18Affected {
			var out []c18Affected
			for _, n := range c18NearNames[eco] {
				out = append(out, one(eco, n, c18Range{Type: "ECOSYSTEM", Events: p}))
			}
			return out
		}},
		{name: "near_names_around", build: func(eco string, p []c18Event) []c18Affected {
			ns := c18NearNames[eco]
			return []c18Affected{one(eco, ns[0], c18Range{Type: "ECOSYSTEM", Events: always}), one(eco, c18Names[eco], c18Range{Type: "ECOSYSTEM", Events: p}), {Eco: eco, Name: ns[1], Versions: []int{0, 1, 2, 3, 4, 5, 6}}}
		}},
		{name: "same_package_two_entries", build: func(eco string, p []c18Event) []c18Affected {
			return []c18Affected{one(eco, c18Names[eco], c18Range{Type: "ECOSYSTEM", Events: p}), one(eco, c18Names[eco], c18Range{Type: "ECOSYSTEM", Events: fromFive})}
		}},
	}
}

func TestC18(t *testing.T) {
	col := ev.Get("C18")
	completed := false
	defer func() { col.Flush(completed) }()
	if ev.HandleReplay(t, col, propC18) {
		completed = true
		return
	}
	e := ev.NewEnumerator(t, col)
	e.Cap = 5
	col.SetExhaustive(true)

	thorough := ev.Thorough()
	maxLen := 4
	if thorough {
		maxLen = 5
	}
	shard, shards := ev.Shard()
	lists := c18Lists(maxLen)
	perms := map[int][][]int{}
	for k := 1; k <= maxLen; k++ {
		perms[k] = c18Perms(k)
	}
	variants := c18VariantList()
	col.SetExtra("event_lists", fmt.Sprint(len(lists)))
	col.SetExtra("max_events", fmt.Sprint(maxLen))

	run := func(eco, variant string, aff []c18Affected) bool {
		for q := 0; q < c18NVers; q++ {
			c := c18Case{Eco: eco, Name: c18Names[eco], Query: q, Variant: variant, Affected: aff}
			o, err := propC18(c)
			if !e.Report(c, o, err) {
				return false
			}
		}
		return true
	}

	ecos := []string{"npm", "Maven", "PyPI"}
	work := 0
	for _, eco := range ecos {
		for _, list := range lists {
			work++
			if work%shards != shard {
				continue
			}
			k := len(list)
			for _, v := range variants {
				if v.npmOnly && eco != "npm" {
					continue
				}
				ps := perms[k]
				// quick tier: the record-shape variants see the sorted and the reversed
				// listing only; the plain ECOSYSTEM / SEMVER records see every order.
				// thorough tier: every variant sees every order.
				if !thorough && !v.full && len(ps) > 2 {
					ps = ps[:2]
				}
				for _, p := range ps {
					if !run(eco, v.name, v.build(eco, c18Apply(list, p))) {
						return
					}
				}
			}
		}
	}

	// pairs of enumerated ranges: primary (<= 3 events) x second range (<= 2 events), the
	// second one listed sorted and reversed; one or two affected entries.
	if thorough {
		short := c18Lists(2)
		for _, eco := range ecos {
			for _, list := range lists {
				if len(list) > 3 {
					continue
				}
				work++
				if work%shards != shard {
					continue
				}
				for _, s := range short {
					for _, sp := range perms[len(s)] {
						second := c18Apply(s, sp)
						one := []c18Affected{{Eco: eco, Name: c18Names[eco], Ranges: []c18Range{{Type: "ECOSYSTEM", Events: list}, {Type: "ECOSYSTEM", Events: second}}}}
						two := []c18Affected{{Eco: eco, Name: c18Names[eco], Ranges: []c18Range{{Type: "ECOSYSTEM", Events: second}}}, {Eco: eco, Name: c18Names[eco], Ranges: []c18Range{{Type: "ECOSYSTEM", Events: list}}}}
						if !run(eco, "pair_one_entry", one) || !run(eco, "pair_two_entries", two) {
							return
						}
					}
				}
			}
		}
	}
	completed = true
}
