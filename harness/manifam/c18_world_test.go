package manifam

// Helpers shared by the two end-to-end legs of C18 (c18_severity_test.go,
// c18_override_test.go): a hand-built deps.dev LocalClient universe, a manifest that pins its
// direct dependencies, OSV records in the harness's own OSV model, and the two entry points
// the legs observe (verifhooks.ResolveManifestFile for the graph the oracle works on,
// verifhooks.AllPatches for the considered vulnerability ids and the strategy's proposals).

import (
	"context"
	"fmt"
	"sort"
	"strings"

	"github.com/google/osv-scalibr/guidedremediation/options"
	"github.com/google/osv-scalibr/guidedremediation/result"
	"github.com/google/osv-scalibr/guidedremediation/verifhooks"

	"verifharness/internal/ev"
	"verifharness/internal/universe"
)

// c18Pkg is one package of a hand-built universe: its versions, none with dependencies.
type c18Pkg struct {
	Name     string
	Versions []string
}

// c18RootName is the project the generated manifests describe.
func c18RootName(system string) string {
	if system == universe.Maven {
		return "org.verif:c18-root"
	}
	return "c18-root"
}

// c18Scenario builds the scenario: the packages (schema order as given, versions as given),
// a manifest that requires deps[i] (exact version for npm, soft requirement for Maven, both
// select exactly the named version), the records and the upgrade levels.
func c18Scenario(system string, pkgs []c18Pkg, deps []universe.Requirement, recs []universe.OSV, levels universe.Levels) universe.Scenario {
	var lines []string
	for _, p := range pkgs {
		lines = append(lines, p.Name)
		for _, v := range p.Versions {
			lines = append(lines, "  "+v)
		}
	}
	return universe.Scenario{
		Universe: universe.Universe{System: system, Schema: lines},
		Manifest: universe.Manifest{System: system, Name: c18RootName(system), Version: "1.0.0", Deps: deps},
		Vulns:    recs,
		Levels:   levels,
	}
}

// c18Run is what one end-to-end run yields.
type c18RunResult struct {
	// Nodes are the non-root nodes of the resolved graph as (name, version).
	Nodes [][2]string
	// Considered are the ids of the vulnerabilities that passed remediation.MatchVuln on the
	// resolved manifest (AllPatches' second result).
	Considered map[string]bool
	Patches    []result.Patch
}

// c18RunScenario materialises the scenario, resolves its manifest (oracle side: the nodes)
// and runs the strategy's analysis (AllPatches) under the given minimum severity.
func c18RunScenario(s universe.Scenario, minSeverity float64) (*c18RunResult, error) {
	w, err := s.Materialise(s.DefaultBudget())
	if err != nil {
		return nil, fmt.Errorf("bad case: %w", err)
	}
	defer w.Close()
	path, err := w.WriteManifest(s.Manifest)
	if err != nil {
		return nil, fmt.Errorf("harness: writing the manifest: %w", err)
	}
	g, err := w.Resolve(context.Background(), path, options.ResolutionOptions{})
	if err != nil {
		return nil, fmt.Errorf("harness: the hand-built manifest does not resolve: %w", err)
	}
	out := &c18RunResult{Considered: map[string]bool{}}
	for i, n := range g.Nodes {
		if i == 0 {
			continue
		}
		out.Nodes = append(out.Nodes, [2]string{n.Version.Name, n.Version.Version})
	}
	ro := options.RemediationOptions{
		DevDeps:       true,
		MaxDepth:      -1,
		MinSeverity:   minSeverity,
		UpgradeConfig: s.Levels.Config(),
	}
	fsys, rel := universe.FSFor(path)
	type res struct {
		patches []result.Patch
		ids     []string
		err     error
		pan     string
	}
	ch := make(chan res, 1)
	go func() {
		var r res
		defer func() {
			if p := recover(); p != nil {
				r.pan = fmt.Sprintf("panic: %v", p)
			}
			ch <- r
		}()
		r.patches, r.ids, r.err = verifhooks.AllPatches(context.Background(), s.Strategy(), w.Client, w.Matcher, w.System, fsys, rel, &ro, nil)
	}()
	r, ok := ev.Await(ch, ev.HangLimit, ev.HangLimit)
	if !ok {
		return nil, fmt.Errorf("AllPatches did not return within %v on a universe of %d package versions", ev.HangLimit, w.Index.Size())
	}
	if r.pan != "" {
		return nil, fmt.Errorf("AllPatches: %s", r.pan)
	}
	if w.Client.Exceeded() {
		return nil, fmt.Errorf("AllPatches exhausted the resolve-client call budget (%d calls) on a universe of %d package versions", w.Client.Calls(), w.Index.Size())
	}
	if r.err != nil {
		return nil, fmt.Errorf("AllPatches failed: %w", r.err)
	}
	for _, id := range r.ids {
		out.Considered[id] = true
	}
	out.Patches = r.patches
	return out, nil
}

// c18Rng is a splitmix64 stream: the sampled parts of the enumerations are a pure function of
// the driver's seed.
type c18Rng struct{ s uint64 }

func (r *c18Rng) next() uint64 {
	r.s += 0x9e3779b97f4a7c15
	z := r.s
	z = (z ^ (z >> 30)) * 0xbf58476d1ce4e5b9
	z = (z ^ (z >> 27)) * 0x94d049bb133111eb
	return z ^ (z >> 31)
}

func (r *c18Rng) intn(n int) int { return int(r.next() % uint64(n)) }

func c18SortedKeys(m map[string]bool) string {
	var ks []string
	for k, v := range m {
		if v {
			ks = append(ks, k)
		}
	}
	sort.Strings(ks)
	return "[" + strings.Join(ks, " ") + "]"
}
