package plugfam

// C19 — capability filtering and plugin name resolution are consistent.
// Exhaustive enumeration: 32 capability tuples x whole registry x all names.

import (
	"context"
	"fmt"
	"sort"
	"strings"
	"testing"

	scalibr "github.com/google/osv-scalibr"
	"github.com/google/osv-scalibr/detector"
	dl "github.com/google/osv-scalibr/detector/list"
	"github.com/google/osv-scalibr/extractor/filesystem"
	el "github.com/google/osv-scalibr/extractor/filesystem/list"
	"github.com/google/osv-scalibr/extractor/standalone"
	scalibrfs "github.com/google/osv-scalibr/fs"
	"github.com/google/osv-scalibr/packageindex"
	sl "github.com/google/osv-scalibr/extractor/standalone/list"
	"github.com/google/osv-scalibr/plugin"

	"verifharness/internal/ev"
)

type capCase struct {
	Check   string `json:"check"`
	OS      int    `json:"os"`
	Network int    `json:"network"`
	Direct  bool   `json:"direct_fs"`
	Running bool   `json:"running_system"`
	Kind    string `json:"kind,omitempty"`
	Plugin  string `json:"plugin,omitempty"`
	Name    string `json:"name,omitempty"`
}

// satisfies is the independent restatement of "the environment satisfies the requirement".
func satisfies(req *plugin.Capabilities, c capCase) bool {
	switch req.OS {
	case plugin.OSAny:
	case plugin.OSUnix:
		if plugin.OS(c.OS) != plugin.OSLinux && plugin.OS(c.OS) != plugin.OSMac {
			return false
		}
	default:
		if req.OS != plugin.OS(c.OS) {
			return false
		}
	}
	if req.Network != plugin.NetworkAny && req.Network != plugin.Network(c.Network) {
		return false
	}
	if req.DirectFS && !c.Direct {
		return false
	}
	if req.RunningSystem && !c.Running {
		return false
	}
	return true
}

func allFS() []filesystem.Extractor {
	var out []filesystem.Extractor
	keys := make([]string, 0, len(el.All))
	for k := range el.All {
		keys = append(keys, k)
	}
	sort.Strings(keys)
	for _, k := range keys {
		for _, f := range el.All[k] {
			out = append(out, f())
		}
	}
	return out
}

func allSA() []standalone.Extractor {
	var out []standalone.Extractor
	keys := make([]string, 0, len(sl.All))
	for k := range sl.All {
		keys = append(keys, k)
	}
	sort.Strings(keys)
	for _, k := range keys {
		for _, f := range sl.All[k] {
			out = append(out, f())
		}
	}
	return out
}

func allDet() []detector.Detector {
	var out []detector.Detector
	keys := make([]string, 0, len(dl.All))
	for k := range dl.All {
		keys = append(keys, k)
	}
	sort.Strings(keys)
	for _, k := range keys {
		for _, f := range dl.All[k] {
			out = append(out, f())
		}
	}
	return out
}

func names[P plugin.Plugin](ps []P) []string {
	out := make([]string, 0, len(ps))
	for _, p := range ps {
		out = append(out, p.Name())
	}
	sort.Strings(out)
	return out
}

func nonEmptyReq(r *plugin.Capabilities) bool {
	return r.OS != plugin.OSAny || r.Network != plugin.NetworkAny || r.DirectFS || r.RunningSystem
}

// checkFilter verifies one (tuple, plugin) pair for one plugin kind.
func checkFilter[P plugin.Plugin](e *ev.Enumerator, c capCase, kind string, all []P, filtered []P, fromCaps []P) bool {
	fset := map[string]int{}
	for _, p := range filtered {
		fset[p.Name()]++
	}
	cset := map[string]int{}
	for _, p := range fromCaps {
		cset[p.Name()]++
	}
	capabs := &plugin.Capabilities{OS: plugin.OS(c.OS), Network: plugin.Network(c.Network), DirectFS: c.Direct, RunningSystem: c.Running}
	for _, p := range all {
		cc := c
		cc.Check, cc.Kind, cc.Plugin = "filter", kind, p.Name()
		want := satisfies(p.Requirements(), c)
		var err error
		if got := fset[p.Name()] > 0; got != want {
			err = fmt.Errorf("FilterByCapabilities(%s) keeps %q = %v, requirement %+v satisfied by %+v = %v", kind, p.Name(), got, *p.Requirements(), *capabs, want)
		} else if got := cset[p.Name()] > 0; got != want {
			err = fmt.Errorf("FromCapabilities(%s) keeps %q = %v, requirement %+v satisfied by %+v = %v", kind, p.Name(), got, *p.Requirements(), *capabs, want)
		} else if fset[p.Name()] > 1 || cset[p.Name()] > 1 {
			err = fmt.Errorf("%s plugin %q returned more than once by the filter", kind, p.Name())
		} else if verr := plugin.ValidateRequirements(p, capabs); (verr == nil) != want {
			err = fmt.Errorf("ValidateRequirements(%q, %+v) = %v, want satisfied=%v", p.Name(), *capabs, verr, want)
		}
		if !e.Report(cc, ev.Outcome{NonTrivial: nonEmptyReq(p.Requirements()), Classes: []string{"filter_" + kind}}, err) {
			return false
		}
	}
	return true
}

var groupNamesFS = []string{"cpp", "java", "javascript", "python", "go", "dart", "erlang", "elixir", "haskell", "r", "ruby", "dotnet", "php", "rust", "swift", "sbom", "os", "containers", "misc", "artifact", "sourcecode", "default", "all"}
var groupNamesSA = []string{"windows", "default", "all", "containers"}
var groupNamesDet = []string{"cis", "govulncheck", "weakcreds", "untested", "default", "all"}

func TestC19(t *testing.T) {
	// replay mode re-runs the whole (cheap, deterministic) enumeration
	col := ev.Get("C19")
	completed := false
	defer func() { col.Flush(completed) }()
	e := ev.NewEnumerator(t, col)
	e.Cap = 10
	col.SetExhaustive(true)

	fsAll, saAll, detAll := allFS(), allSA(), allDet()
	col.SetExtra("filesystem_extractors", len(fsAll))
	col.SetExtra("standalone_extractors", len(saAll))
	col.SetExtra("detectors", len(detAll))

	// (1) capability tuples x plugins.
	for _, os := range []plugin.OS{plugin.OSLinux, plugin.OSWindows, plugin.OSMac, plugin.OSAny} {
		for _, nw := range []plugin.Network{plugin.NetworkOffline, plugin.NetworkOnline} {
			for _, d := range []bool{false, true} {
				for _, r := range []bool{false, true} {
					c := capCase{OS: int(os), Network: int(nw), Direct: d, Running: r}
					capabs := &plugin.Capabilities{OS: os, Network: nw, DirectFS: d, RunningSystem: r}
					ffs := el.FilterByCapabilities(allFS(), capabs)
					fsa := sl.FilterByCapabilities(allSA(), capabs)
					fdet := dl.FilterByCapabilities(allDet(), capabs)
					if !checkFilter(e, c, "filesystem", fsAll, ffs, el.FromCapabilities(capabs)) ||
						!checkFilter(e, c, "standalone", saAll, fsa, sl.FromCapabilities(capabs)) ||
						!checkFilter(e, c, "detector", detAll, fdet, dl.FromCapabilities(capabs)) {
						return
					}
					// A configuration built from the filtered sets never fails requirement validation.
					cfg := &scalibr.ScanConfig{FilesystemExtractors: ffs, StandaloneExtractors: fsa, Detectors: fdet, Capabilities: capabs}
					cc := c
					cc.Check = "validate_filtered_config"
					var err error
					if verr := cfg.ValidatePluginRequirements(); verr != nil {
						err = fmt.Errorf("config from filtered plugins fails validation under %+v: %v", *capabs, verr)
					}
					if !e.Report(cc, ev.Outcome{NonTrivial: true, Classes: []string{"validate_filtered_config"}}, err) {
						return
					}
					// And, per plugin, the unfiltered single-plugin config validates iff the model says so.
				}
			}
		}
	}

	// (2) uniqueness of names within and across the registries.
	seen := map[string]string{}
	uniq := func(kind string, ns []string) bool {
		for _, n := range ns {
			var err error
			if prev, ok := seen[n]; ok {
				err = fmt.Errorf("plugin name %q is used by a %s and a %s plugin", n, prev, kind)
			}
			seen[n] = kind
			if !e.Report(capCase{Check: "unique_name", Kind: kind, Plugin: n}, ev.Outcome{NonTrivial: true, Classes: []string{"unique_name"}}, err) {
				return false
			}
		}
		return true
	}
	if !uniq("filesystem", names(fsAll)) || !uniq("standalone", names(saAll)) || !uniq("detector", names(detAll)) {
		return
	}

	// (3) every advertised name resolves; a plugin's own name resolves to that plugin.
	for k := range el.All {
		var err error
		exs, rerr := el.ExtractorsFromNames([]string{k})
		if rerr != nil {
			err = fmt.Errorf("filesystem ExtractorsFromNames(%q): %v", k, rerr)
		} else if len(exs) != len(el.All[k]) {
			err = fmt.Errorf("filesystem ExtractorsFromNames(%q) returned %d plugins, registry has %d", k, len(exs), len(el.All[k]))
		}
		if !e.Report(capCase{Check: "resolve_key", Kind: "filesystem", Name: k}, ev.Outcome{NonTrivial: true, Classes: []string{"resolve_key"}}, err) {
			return
		}
	}
	for _, p := range fsAll {
		var err error
		got, rerr := el.ExtractorFromName(p.Name())
		if rerr != nil {
			err = fmt.Errorf("filesystem ExtractorFromName(%q): %v", p.Name(), rerr)
		} else if got.Name() != p.Name() {
			err = fmt.Errorf("filesystem ExtractorFromName(%q) returned %q", p.Name(), got.Name())
		} else if l, lerr := el.ExtractorsFromNames([]string{p.Name()}); lerr != nil || len(l) != 1 || l[0].Name() != p.Name() {
			err = fmt.Errorf("filesystem ExtractorsFromNames([%q]) = %v, %v", p.Name(), names(l), lerr)
		}
		if !e.Report(capCase{Check: "resolve_own_name", Kind: "filesystem", Plugin: p.Name()}, ev.Outcome{NonTrivial: true, Classes: []string{"resolve_own_name"}}, err) {
			return
		}
	}
	for k := range sl.All {
		var err error
		exs, rerr := sl.ExtractorsFromNames([]string{k})
		if rerr != nil {
			err = fmt.Errorf("standalone ExtractorsFromNames(%q): %v", k, rerr)
		} else if len(exs) != len(sl.All[k]) {
			err = fmt.Errorf("standalone ExtractorsFromNames(%q) returned %d plugins, registry has %d", k, len(exs), len(sl.All[k]))
		}
		if !e.Report(capCase{Check: "resolve_key", Kind: "standalone", Name: k}, ev.Outcome{NonTrivial: true, Classes: []string{"resolve_key"}}, err) {
			return
		}
	}
	for _, p := range saAll {
		var err error
		got, rerr := sl.ExtractorFromName(p.Name())
		if rerr != nil {
			err = fmt.Errorf("standalone ExtractorFromName(%q): %v", p.Name(), rerr)
		} else if got.Name() != p.Name() {
			err = fmt.Errorf("standalone ExtractorFromName(%q) returned %q", p.Name(), got.Name())
		} else if l, lerr := sl.ExtractorsFromNames([]string{p.Name()}); lerr != nil || len(l) != 1 || l[0].Name() != p.Name() {
			err = fmt.Errorf("standalone ExtractorsFromNames([%q]) = %v, %v", p.Name(), names(l), lerr)
		}
		if !e.Report(capCase{Check: "resolve_own_name", Kind: "standalone", Plugin: p.Name()}, ev.Outcome{NonTrivial: true, Classes: []string{"resolve_own_name"}}, err) {
			return
		}
	}
	for k := range dl.All {
		var err error
		ds, rerr := dl.DetectorsFromNames([]string{k})
		if rerr != nil {
			err = fmt.Errorf("DetectorsFromNames(%q): %v", k, rerr)
		} else if len(ds) != len(dl.All[k]) {
			err = fmt.Errorf("DetectorsFromNames(%q) returned %d plugins, registry has %d", k, len(ds), len(dl.All[k]))
		}
		if !e.Report(capCase{Check: "resolve_key", Kind: "detector", Name: k}, ev.Outcome{NonTrivial: true, Classes: []string{"resolve_key"}}, err) {
			return
		}
	}
	for _, p := range detAll {
		var err error
		l, lerr := dl.DetectorsFromNames([]string{p.Name()})
		if lerr != nil || len(l) != 1 || l[0].Name() != p.Name() {
			err = fmt.Errorf("DetectorsFromNames([%q]) = %v, %v", p.Name(), names(l), lerr)
		}
		if !e.Report(capCase{Check: "resolve_own_name", Kind: "detector", Plugin: p.Name()}, ev.Outcome{NonTrivial: true, Classes: []string{"resolve_own_name"}}, err) {
			return
		}
	}
	// Group names (documented on the CLI and in the list packages' exported group maps).
	groups := map[string]map[string]el.InitMap{}
	_ = groups
	type grp struct {
		kind string
		name string
		want []string
	}
	var gs []grp
	fsGroups := map[string]el.InitMap{
		"cpp": el.CppSource, "java": cat(el.JavaSource, el.JavaArtifact), "javascript": cat(el.JavascriptSource, el.JavascriptArtifact),
		"python": cat(el.PythonSource, el.PythonArtifact), "go": cat(el.GoSource, el.GoArtifact), "dart": el.DartSource,
		"erlang": el.ErlangSource, "elixir": el.ElixirSource, "haskell": el.HaskellSource, "r": el.RSource, "ruby": el.RubySource,
		"dotnet": cat(el.DotnetSource, el.DotnetArtifact), "php": el.PHPSource, "rust": el.RustSource, "swift": el.SwiftSource,
		"sbom": el.SBOM, "os": el.OS, "containers": el.Containers, "misc": el.Misc, "artifact": el.Artifact,
		"sourcecode": el.SourceCode, "default": el.Default, "all": el.All,
	}
	for _, g := range groupNamesFS {
		gs = append(gs, grp{"filesystem", g, keysOf(fsGroups[g])})
	}
	saGroups := map[string]sl.InitMap{"windows": sl.Windows, "default": sl.Default, "all": sl.All, "containers": sl.Containers}
	for _, g := range groupNamesSA {
		gs = append(gs, grp{"standalone", g, keysOfSA(saGroups[g])})
	}
	detGroups := map[string]dl.InitMap{"cis": dl.CIS, "govulncheck": dl.Govulncheck, "weakcreds": dl.Weakcreds, "untested": dl.Untested, "default": dl.Default, "all": dl.All}
	for _, g := range groupNamesDet {
		gs = append(gs, grp{"detector", g, keysOfDet(detGroups[g])})
	}
	for _, g := range gs {
		var got []string
		var rerr error
		switch g.kind {
		case "filesystem":
			l, e2 := el.ExtractorsFromNames([]string{g.name})
			got, rerr = names(l), e2
		case "standalone":
			l, e2 := sl.ExtractorsFromNames([]string{g.name})
			got, rerr = names(l), e2
		case "detector":
			l, e2 := dl.DetectorsFromNames([]string{g.name})
			got, rerr = names(l), e2
		}
		var err error
		if rerr != nil {
			err = fmt.Errorf("%s group %q does not resolve: %v", g.kind, g.name, rerr)
		} else if strings.Join(got, ",") != strings.Join(g.want, ",") {
			err = fmt.Errorf("%s group %q resolves to %v, the exported group map holds %v", g.kind, g.name, got, g.want)
		}
		if !e.Report(capCase{Check: "resolve_group", Kind: g.kind, Name: g.name}, ev.Outcome{NonTrivial: true, Classes: []string{"resolve_group"}}, err) {
			return
		}
	}

	// (4) every extractor a detector requires can be enabled automatically, and then the
	// configuration validates under capabilities that satisfy all plugins involved.
	for _, d := range detAll {
		cfg := &scalibr.ScanConfig{Detectors: []detector.Detector{d}}
		var err error
		if rerr := cfg.EnableRequiredExtractors(); rerr != nil {
			err = fmt.Errorf("EnableRequiredExtractors for detector %q: %v", d.Name(), rerr)
		} else {
			enabled := map[string]bool{}
			for _, x := range cfg.FilesystemExtractors {
				enabled[x.Name()] = true
			}
			for _, x := range cfg.StandaloneExtractors {
				enabled[x.Name()] = true
			}
			for _, r := range d.RequiredExtractors() {
				if !enabled[r] {
					err = fmt.Errorf("detector %q requires %q which was not enabled", d.Name(), r)
				}
			}
			if err == nil && len(enabled) != len(uniqStrings(d.RequiredExtractors())) {
				err = fmt.Errorf("detector %q requires %v but %d extractors were enabled", d.Name(), d.RequiredExtractors(), len(enabled))
			}
		}
		if !e.Report(capCase{Check: "enable_required", Kind: "detector", Plugin: d.Name()}, ev.Outcome{NonTrivial: len(d.RequiredExtractors()) > 0, Classes: []string{"enable_required"}}, err) {
			return
		}
	}
	// Pre-enabled extractors are not added twice.
	for _, d := range detAll {
		if len(d.RequiredExtractors()) == 0 {
			continue
		}
		cfg := &scalibr.ScanConfig{Detectors: []detector.Detector{d, d}}
		_ = cfg.EnableRequiredExtractors()
		n := len(cfg.FilesystemExtractors) + len(cfg.StandaloneExtractors)
		_ = cfg.EnableRequiredExtractors()
		var err error
		if n2 := len(cfg.FilesystemExtractors) + len(cfg.StandaloneExtractors); n2 != n || n != len(uniqStrings(d.RequiredExtractors())) {
			err = fmt.Errorf("detector %q: enabling required extractors twice gives %d then %d extractors for %v", d.Name(), n, n2, d.RequiredExtractors())
		}
		if !e.Report(capCase{Check: "enable_required_idempotent", Kind: "detector", Plugin: d.Name()}, ev.Outcome{NonTrivial: true, Classes: []string{"enable_required_idempotent"}}, err) {
			return
		}
	}
	// (5) the same for every ordered triple of detectors (repeats allowed), with nothing
	// pre-enabled and with the first required extractor of the middle detector pre-enabled: the
	// enabled extractors are exactly the union of what the three require, each once.
	reqDets := []detector.Detector{}
	var noReq detector.Detector
	for _, d := range detAll {
		if len(d.RequiredExtractors()) > 0 {
			reqDets = append(reqDets, d)
		} else if noReq == nil {
			noReq = d
		}
	}
	if noReq != nil {
		reqDets = append(reqDets, noReq)
	}
	for _, a := range reqDets {
		for _, b := range reqDets {
			for _, c := range reqDets {
				for pre := 0; pre < 2; pre++ {
					cfg := &scalibr.ScanConfig{Detectors: []detector.Detector{a, b, c}}
					if pre == 1 {
						if len(b.RequiredExtractors()) == 0 {
							continue
						}
						n := b.RequiredExtractors()[0]
						if l, lerr := el.ExtractorsFromNames([]string{n}); lerr == nil {
							cfg.FilesystemExtractors = l
						} else if l, lerr := sl.ExtractorsFromNames([]string{n}); lerr == nil {
							cfg.StandaloneExtractors = l
						} else {
							continue
						}
					}
					want := uniqStrings(append(append(append([]string{}, a.RequiredExtractors()...), b.RequiredExtractors()...), c.RequiredExtractors()...))
					var err error
					if rerr := cfg.EnableRequiredExtractors(); rerr != nil {
						err = fmt.Errorf("EnableRequiredExtractors for detectors %q, %q, %q: %v", a.Name(), b.Name(), c.Name(), rerr)
					} else {
						var got []string
						for _, x := range cfg.FilesystemExtractors {
							got = append(got, x.Name())
						}
						for _, x := range cfg.StandaloneExtractors {
							got = append(got, x.Name())
						}
						sort.Strings(got)
						w := append([]string{}, want...)
						sort.Strings(w)
						if strings.Join(got, ",") != strings.Join(w, ",") {
							err = fmt.Errorf("detectors %q, %q, %q (pre-enabled: %v) require %v; enabled extractors afterwards: %v", a.Name(), b.Name(), c.Name(), pre == 1, w, got)
						}
					}
					distinct := a.Name() != b.Name() && b.Name() != c.Name() && a.Name() != c.Name()
					if !e.Report(capCase{Check: "enable_required_triple", Kind: "detector", Plugin: a.Name() + "|" + b.Name() + "|" + c.Name(), Name: fmt.Sprintf("pre=%d", pre)}, ev.Outcome{NonTrivial: distinct, Classes: []string{"enable_required_triple"}}, err) {
						return
					}
				}
			}
		}
	}
	// (8) the environment is described by one Capabilities value that the caller updates in
	// place between calls (every ordered pair of tuples): FromCapabilities answers for the
	// values the struct holds at the time of the call
	{
		var tuples []capCase
		for _, os := range []plugin.OS{plugin.OSLinux, plugin.OSWindows, plugin.OSMac, plugin.OSAny} {
			for _, nw := range []plugin.Network{plugin.NetworkOffline, plugin.NetworkOnline} {
				for _, d := range []bool{false, true} {
					for _, r := range []bool{false, true} {
						tuples = append(tuples, capCase{OS: int(os), Network: int(nw), Direct: d, Running: r})
					}
				}
			}
		}
		for _, a := range tuples {
			for _, b := range tuples {
				capabs := &plugin.Capabilities{OS: plugin.OS(a.OS), Network: plugin.Network(a.Network), DirectFS: a.Direct, RunningSystem: a.Running}
				_ = el.FromCapabilities(capabs)
				_ = sl.FromCapabilities(capabs)
				_ = dl.FromCapabilities(capabs)
				capabs.OS, capabs.Network, capabs.DirectFS, capabs.RunningSystem = plugin.OS(b.OS), plugin.Network(b.Network), b.Direct, b.Running
				got := map[string][]string{"filesystem": names(el.FromCapabilities(capabs)), "standalone": names(sl.FromCapabilities(capabs)), "detector": names(dl.FromCapabilities(capabs))}
				want := map[string][]string{}
				for _, p := range fsAll {
					if satisfies(p.Requirements(), b) {
						want["filesystem"] = append(want["filesystem"], p.Name())
					}
				}
				for _, p := range saAll {
					if satisfies(p.Requirements(), b) {
						want["standalone"] = append(want["standalone"], p.Name())
					}
				}
				for _, p := range detAll {
					if satisfies(p.Requirements(), b) {
						want["detector"] = append(want["detector"], p.Name())
					}
				}
				var err error
				for _, kind := range []string{"filesystem", "standalone", "detector"} {
					w := append([]string{}, want[kind]...)
					sort.Strings(w)
					if strings.Join(got[kind], ",") != strings.Join(w, ",") && err == nil {
						err = fmt.Errorf("%s FromCapabilities(%+v), called after the same struct had held %+v: got %v, want %v", kind, *capabs, a, got[kind], w)
					}
				}
				cc := b
				cc.Check, cc.Name = "from_capabilities_after_update", fmt.Sprintf("first=%d/%d/%v/%v", a.OS, a.Network, a.Direct, a.Running)
				if !e.Report(cc, ev.Outcome{NonTrivial: a != b, Classes: []string{"from_capabilities_after_update"}}, err) {
					return
				}
			}
		}
	}
	// (9) every plugin name an exported group map advertises resolves on its own to that plugin
	{
		type adv struct {
			kind, group, key string
		}
		var advs []adv
		for g, m := range fsGroups {
			for _, k := range keysOf(m) {
				advs = append(advs, adv{"filesystem", g, k})
			}
		}
		for g, m := range saGroups {
			for _, k := range keysOfSA(m) {
				advs = append(advs, adv{"standalone", g, k})
			}
		}
		for g, m := range detGroups {
			for _, k := range keysOfDet(m) {
				advs = append(advs, adv{"detector", g, k})
			}
		}
		sort.Slice(advs, func(i, j int) bool { return fmt.Sprint(advs[i]) < fmt.Sprint(advs[j]) })
		for _, a := range advs {
			var got []string
			var rerr error
			switch a.kind {
			case "filesystem":
				l, e2 := el.ExtractorsFromNames([]string{a.key})
				got, rerr = names(l), e2
			case "standalone":
				l, e2 := sl.ExtractorsFromNames([]string{a.key})
				got, rerr = names(l), e2
			case "detector":
				l, e2 := dl.DetectorsFromNames([]string{a.key})
				got, rerr = names(l), e2
			}
			var err error
			if rerr != nil {
				err = fmt.Errorf("%s name %q, advertised by the exported group map %q, does not resolve: %v", a.kind, a.key, a.group, rerr)
			} else if len(got) == 0 {
				err = fmt.Errorf("%s name %q (group map %q) resolves to nothing", a.kind, a.key, a.group)
			}
			if !e.Report(capCase{Check: "resolve_advertised_name", Kind: a.kind, Name: a.group + ":" + a.key}, ev.Outcome{NonTrivial: true, Classes: []string{"resolve_advertised_name"}}, err) {
				return
			}
		}
	}
	// (10) "every extractor a detector declares as required can be enabled automatically", end
	// to end: a scan configured with nothing but a detector that declares the extractor (a stub
	// standing in for the built-in detectors that declare it, which are not run here) enables
	// it itself and runs it, so the extractor has a status entry in the result.
	{
		needed := map[string][]string{}
		for _, k := range keysOfDet(dl.All) {
			ds, err := dl.DetectorsFromNames([]string{k})
			if err != nil {
				continue
			}
			for _, d := range ds {
				for _, r := range d.RequiredExtractors() {
					needed[r] = append(needed[r], d.Name())
				}
			}
		}
		for _, name := range sortedKeys(needed) {
			if _, err := el.ExtractorsFromNames([]string{name}); err != nil {
				continue // a standalone extractor: those look at the running system, not at the scan root
			}
			cfg := &scalibr.ScanConfig{
				Detectors:    []detector.Detector{stubDetector{req: []string{name}}},
				ScanRoots:    scalibrfs.RealFSScanRoots(t.TempDir()),
				Capabilities: &plugin.Capabilities{OS: plugin.OSLinux, Network: plugin.NetworkOnline, DirectFS: true, RunningSystem: true},
			}
			res := scalibr.New().Scan(context.Background(), cfg)
			var err error
			n := 0
			for _, st := range res.PluginStatus {
				if st.Name == name {
					n++
				}
			}
			if res.Status == nil || res.Status.Status != plugin.ScanStatusSucceeded {
				err = fmt.Errorf("scan with a detector that requires %q (as %v do) fails: %+v", name, needed[name], res.Status)
			} else if n != 1 {
				err = fmt.Errorf("scan with a detector that requires %q (as %v do): the extractor has %d status entries in the result, it was not enabled and run", name, needed[name], n)
			}
			if !e.Report(capCase{Check: "required_extractor_runs_in_scan", Kind: "detector", Name: name}, ev.Outcome{NonTrivial: true, Classes: []string{"required_extractor_runs_in_scan"}}, err) {
				return
			}
		}
	}
	// (7) two names resolved together: no plugin twice, and exactly the plugins the two names
	// resolve to one by one (every ordered pair of registry keys and group names)
	{
		type resolver func([]string) ([]string, error)
		regs := []struct {
			kind    string
			names   []string
			resolve resolver
		}{
			{"filesystem", append(append([]string{}, groupNamesFS...), keysOf(el.All)...), func(n []string) ([]string, error) {
				l, err := el.ExtractorsFromNames(n)
				return names(l), err
			}},
			{"standalone", append(append([]string{}, groupNamesSA...), keysOfSA(sl.All)...), func(n []string) ([]string, error) {
				l, err := sl.ExtractorsFromNames(n)
				return names(l), err
			}},
			{"detector", append(append([]string{}, groupNamesDet...), keysOfDet(dl.All)...), func(n []string) ([]string, error) {
				l, err := dl.DetectorsFromNames(n)
				return names(l), err
			}},
		}
		for _, rg := range regs {
			single := map[string][]string{}
			for _, n := range uniqStrings(rg.names) {
				if l, err := rg.resolve([]string{n}); err == nil {
					single[n] = l
				}
			}
			ns := make([]string, 0, len(single))
			for n := range single {
				ns = append(ns, n)
			}
			sort.Strings(ns)
			for _, a := range ns {
				for _, b := range ns {
					got, rerr := rg.resolve([]string{a, b})
					want := uniqStrings(append(append([]string{}, single[a]...), single[b]...))
					sort.Strings(want)
					var err error
					if rerr != nil {
						err = fmt.Errorf("%s names [%q %q] do not resolve together: %v", rg.kind, a, b, rerr)
					} else if strings.Join(got, ",") != strings.Join(want, ",") {
						err = fmt.Errorf("%s names [%q %q] resolve to %v; one by one they resolve to %v (each plugin once)", rg.kind, a, b, got, want)
					}
					if !e.Report(capCase{Check: "resolve_pair", Kind: rg.kind, Name: a + "+" + b}, ev.Outcome{NonTrivial: a != b, Classes: []string{"resolve_pair"}}, err) {
						return
					}
				}
			}
		}
	}
	// (6) a caller's list is filtered under one environment and then under another: the list
	// itself is left as it was, and the second result is again exactly the plugins of the list
	// whose requirements the second environment satisfies (every ordered pair of tuples).
	var tuples []capCase
	for _, os := range []plugin.OS{plugin.OSLinux, plugin.OSWindows, plugin.OSMac, plugin.OSAny} {
		for _, nw := range []plugin.Network{plugin.NetworkOffline, plugin.NetworkOnline} {
			for _, d := range []bool{false, true} {
				for _, r := range []bool{false, true} {
					tuples = append(tuples, capCase{OS: int(os), Network: int(nw), Direct: d, Running: r})
				}
			}
		}
	}
	capsOf := func(c capCase) *plugin.Capabilities {
		return &plugin.Capabilities{OS: plugin.OS(c.OS), Network: plugin.Network(c.Network), DirectFS: c.Direct, RunningSystem: c.Running}
	}
	for _, a := range tuples {
		for _, b := range tuples {
			for _, kind := range []string{"filesystem", "standalone", "detector"} {
				var before, after, second, want []string
				switch kind {
				case "filesystem":
					l := allFS()
					before = names(l)
					el.FilterByCapabilities(l, capsOf(a))
					after = names(l)
					second = names(el.FilterByCapabilities(l, capsOf(b)))
					for _, p := range fsAll {
						if satisfies(p.Requirements(), b) {
							want = append(want, p.Name())
						}
					}
				case "standalone":
					l := allSA()
					before = names(l)
					sl.FilterByCapabilities(l, capsOf(a))
					after = names(l)
					second = names(sl.FilterByCapabilities(l, capsOf(b)))
					for _, p := range saAll {
						if satisfies(p.Requirements(), b) {
							want = append(want, p.Name())
						}
					}
				case "detector":
					l := allDet()
					before = names(l)
					dl.FilterByCapabilities(l, capsOf(a))
					after = names(l)
					second = names(dl.FilterByCapabilities(l, capsOf(b)))
					for _, p := range detAll {
						if satisfies(p.Requirements(), b) {
							want = append(want, p.Name())
						}
					}
				}
				var err error
				if strings.Join(before, ",") != strings.Join(after, ",") {
					err = fmt.Errorf("FilterByCapabilities(%s, %+v) changed the list it was given: before %v, after %v", kind, *capsOf(a), before, after)
				} else {
					sort.Strings(second)
					sort.Strings(want)
					if strings.Join(second, ",") != strings.Join(want, ",") {
						err = fmt.Errorf("%s list filtered under %+v and then under %+v: second result %v, want %v", kind, *capsOf(a), *capsOf(b), second, want)
					}
				}
				cc := b
				cc.Check, cc.Kind, cc.Name = "filter_twice", kind, fmt.Sprintf("first=%d/%d/%v/%v", a.OS, a.Network, a.Direct, a.Running)
				if !e.Report(cc, ev.Outcome{NonTrivial: a != b, Classes: []string{"filter_twice"}}, err) {
					return
				}
			}
		}
	}
	completed = true
}

func uniqStrings(s []string) []string {
	m := map[string]bool{}
	var out []string
	for _, x := range s {
		if !m[x] {
			m[x] = true
			out = append(out, x)
		}
	}
	return out
}

func cat(ms ...el.InitMap) el.InitMap {
	out := el.InitMap{}
	for _, m := range ms {
		for k, v := range m {
			out[k] = v
		}
	}
	return out
}

func keysOf(m el.InitMap) []string {
	var out []string
	for _, fs := range m {
		for _, f := range fs {
			out = append(out, f().Name())
		}
	}
	out = uniqStrings(out)
	sort.Strings(out)
	return out
}

func keysOfSA(m sl.InitMap) []string {
	var out []string
	for _, fs := range m {
		for _, f := range fs {
			out = append(out, f().Name())
		}
	}
	out = uniqStrings(out)
	sort.Strings(out)
	return out
}

func keysOfDet(m dl.InitMap) []string {
	var out []string
	for _, fs := range m {
		for _, f := range fs {
			out = append(out, f().Name())
		}
	}
	out = uniqStrings(out)
	sort.Strings(out)
	return out
}

// stubDetector declares required extractors and finds nothing.
type stubDetector struct{ req []string }

func (stubDetector) Name() string                       { return "verif/stub-detector" }
func (stubDetector) Version() int                       { return 1 }
func (stubDetector) Requirements() *plugin.Capabilities { return &plugin.Capabilities{} }
func (d stubDetector) RequiredExtractors() []string     { return d.req }
func (stubDetector) Scan(context.Context, *scalibrfs.ScanRoot, *packageindex.PackageIndex) ([]*detector.Finding, error) {
	return nil, nil
}

func sortedKeys(m map[string][]string) []string {
	var out []string
	for k := range m {
		out = append(out, k)
	}
	sort.Strings(out)
	return out
}
