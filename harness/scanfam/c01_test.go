package scanfam

// C01 — every required file is extracted exactly once, and nothing else is.

import (
	"fmt"
	"os"
	"path/filepath"
	"sort"
	"strings"
	"syscall"
	"testing"

	scalibrfs "github.com/google/osv-scalibr/fs"
	"pgregory.net/rapid"

	"verifharness/internal/ev"
	"verifharness/internal/memfs"
	"verifharness/internal/recext"
	"verifharness/internal/walkmodel"
)

type c01Case struct {
	Tree        memfs.Tree          `json:"tree"`
	Cfg         walkmodel.Config    `json:"cfg"`
	Exts        []recext.ExtSpec    `json:"exts"`
	Order       map[string][]string `json:"order,omitempty"`
	ReadDirFile bool                `json:"read_dir_file"`
	RealFS      bool                `json:"real_fs,omitempty"`
	MetaDirs    []string            `json:"meta_dirs,omitempty"`
	// Tree2, when set, is scanned as a second (virtual) scan root in the same scan: every
	// file is extracted once per scan root that reaches it.
	Tree2 *memfs.Tree `json:"tree2,omitempty"`
}

// Known-finding classes of C01 (see KNOWN_FINDINGS.txt / DESIGN.md §7).
const (
	c01RegexAndGlob  = "c01.regex_and_glob"
	c01RootGitignore = "c01.root_gitignore"
)

func hasRootGitignore(tr memfs.Tree) bool {
	for _, n := range tr.Nodes {
		if n.Path == ".gitignore" {
			return true
		}
	}
	return false
}

func genC01(realFS bool) func(t *rapid.T) c01Case {
	return func(t *rapid.T) c01Case {
		col := ev.Get("C01")
		c := c01Case{RealFS: realFS}
		c.Tree = genTree(t, treeOpts{MaxNodes: 25, MaxDepth: 4, Gitignore: true, Symlinks: true, Special: true})
		c.Cfg = genConfig(t, c.Tree, cfgOpts{AllowPaths: true, AllowSize: true})
		c.Exts = genExts(t, c.Tree, 3, 0)
		c.Order = genOrder(t, c.Tree, "order")
		c.ReadDirFile = rapid.Bool().Draw(t, "read_dir_file")
		if col.IsKnown(c01RegexAndGlob) && c.Cfg.Regex != "" && c.Cfg.Glob != "" {
			col.Excluded(c01RegexAndGlob)
			c.Cfg.Glob = ""
		}
		if col.IsKnown(c01RootGitignore) && c.Cfg.UseGitignore && hasRootGitignore(c.Tree) {
			col.Excluded(c01RootGitignore)
			c.Cfg.UseGitignore = false
		}
		if !realFS && len(c.Cfg.PathsToExtract) == 0 && rapid.IntRange(0, 4).Draw(t, "second_root") == 0 {
			t2 := genTree(t, treeOpts{MaxNodes: 12, MaxDepth: 3, Gitignore: true, Symlinks: true, Special: true})
			if rapid.IntRange(0, 3).Draw(t, "same_tree_twice") == 0 {
				t2 = c.Tree
			}
			c.Tree2 = &t2
			if col.IsKnown(c01RootGitignore) && c.Cfg.UseGitignore && hasRootGitignore(t2) {
				c.Cfg.UseGitignore = false
			}
		}
		dirs := treeDirs(c.Tree)
		if len(dirs) > 0 {
			n := rapid.IntRange(0, 2).Draw(t, "n_meta")
			for i := 0; i < n; i++ {
				c.MetaDirs = append(c.MetaDirs, rapid.SampledFrom(dirs).Draw(t, "meta_dir"))
			}
		}
		return c
	}
}

// materialise writes the tree under root on the real file system.
func materialise(root string, tr memfs.Tree) error {
	for _, n := range tr.Normalize().Nodes {
		p := filepath.Join(root, filepath.FromSlash(n.Path))
		switch n.Kind {
		case memfs.KDir:
			if err := os.MkdirAll(p, 0o755); err != nil {
				return err
			}
		case memfs.KFile:
			mode := os.FileMode(n.Mode & 0o777)
			if mode == 0 {
				mode = 0o644
			}
			if err := os.WriteFile(p, []byte(n.Content), mode); err != nil {
				return err
			}
			if err := os.Chmod(p, mode); err != nil {
				return err
			}
		case memfs.KSymlink:
			tgt := n.Target
			if strings.HasPrefix(tgt, "/") {
				tgt = filepath.Join(root, tgt)
			}
			if err := os.Symlink(tgt, p); err != nil {
				return err
			}
		case memfs.KSpecial:
			if err := syscall.Mknod(p, syscall.S_IFSOCK|0o644, 0); err != nil {
				return err
			}
		}
	}
	return nil
}

func absCfg(cfg walkmodel.Config, root string) walkmodel.Config {
	out := cfg
	out.DirsToSkip = nil
	for _, d := range cfg.DirsToSkip {
		out.DirsToSkip = append(out.DirsToSkip, filepath.Join(root, d))
	}
	out.PathsToExtract = nil
	for _, d := range cfg.PathsToExtract {
		out.PathsToExtract = append(out.PathsToExtract, filepath.Join(root, d))
	}
	return out
}

func propC01(c c01Case) (ev.Outcome, error) {
	var o ev.Outcome
	mfs := memfs.New(c.Tree, memfs.Options{Order: c.Order, ReadDirFile: c.ReadDirFile})
	exp := walkmodel.Expected(mfs, c.Cfg, c.Exts)

	var out scanOut
	absRoot := ""
	if c.RealFS {
		dir, err := os.MkdirTemp(os.Getenv("VERIF_SCRATCH"), "c01-real-")
		if err != nil {
			return o, nil
		}
		defer os.RemoveAll(dir)
		absRoot = filepath.Join(dir, "root")
		if err := os.Mkdir(absRoot, 0o755); err != nil {
			return o, nil
		}
		if err := materialise(absRoot, c.Tree); err != nil {
			o.Classes = append(o.Classes, "real_fs_materialise_failed")
			return o, nil
		}
		out = runScan(scalibrfs.RealFSScanRoots(absRoot), absCfg(c.Cfg, absRoot), c.Exts, nil)
		o.Classes = append(o.Classes, "real_fs")
	} else {
		roots := virtualRoot(mfs)
		if c.Tree2 != nil {
			mfs2 := memfs.New(*c.Tree2, memfs.Options{ReadDirFile: c.ReadDirFile})
			roots = append(roots, virtualRoot(mfs2)...)
			exp2 := walkmodel.Expected(mfs2, c.Cfg, c.Exts)
			exp.Calls = append(exp.Calls, exp2.Calls...)
			sort.Slice(exp.Calls, func(i, j int) bool {
				if exp.Calls[i].Path != exp.Calls[j].Path {
					return exp.Calls[i].Path < exp.Calls[j].Path
				}
				return exp.Calls[i].Ext < exp.Calls[j].Ext
			})
			exp.Optional = append(exp.Optional, exp2.Optional...)
			exp.DontCare = append(exp.DontCare, exp2.DontCare...)
			for k, v := range exp2.Excluded {
				exp.Excluded[k] += v
			}
			for k := range exp2.Fired {
				exp.Fired[k] = true
			}
			o.Classes = append(o.Classes, "two_scan_roots")
		}
		out = runScan(roots, c.Cfg, c.Exts, nil)
		if c.ReadDirFile {
			o.Classes = append(o.Classes, "memfs_readdirfile")
		} else {
			o.Classes = append(o.Classes, "memfs_readdir_fallback")
		}
	}
	if out.Panic != nil {
		return o, fmt.Errorf("scan panicked: %v", out.Panic)
	}
	for _, op := range out.Ops {
		if op.Site == "open-special" {
			return o, fmt.Errorf("special file %q was opened", op.Path)
		}
	}
	// classes
	nRules := 0
	for _, set := range []bool{len(c.Cfg.DirsToSkip) > 0, c.Cfg.Regex != "", c.Cfg.Glob != "", c.Cfg.UseGitignore, c.Cfg.IgnoreSubDirs, c.Cfg.MaxFileSize > 0} {
		if set {
			nRules++
		}
	}
	if nRules >= 2 {
		o.Classes = append(o.Classes, "two_or_more_rules_set")
	}
	if c.Cfg.Regex != "" && c.Cfg.Glob != "" {
		o.Classes = append(o.Classes, "regex_and_glob_set")
	}
	if c.Cfg.UseGitignore && hasRootGitignore(c.Tree) {
		o.Classes = append(o.Classes, "root_gitignore_in_use")
	}
	for r := range exp.Fired {
		o.Classes = append(o.Classes, "fired_"+r)
	}
	if len(c.Cfg.PathsToExtract) > 0 {
		o.Classes = append(o.Classes, "requested_paths")
	}
	nExcl := 0
	for _, v := range exp.Excluded {
		nExcl += v
	}

	got := sortedCalls(out.Calls)
	if len(exp.Optional) > 0 {
		// an optional call may or may not happen: per (extractor, path) the observed number of
		// calls may exceed the mandatory number by at most the number of optional ones (with two
		// scan roots the same relative path can be mandatory in one root and optional in the other)
		opt := map[walkmodel.Extraction]int{}
		for _, e := range exp.Optional {
			opt[e]++
		}
		need := map[walkmodel.Extraction]int{}
		for _, e := range exp.Calls {
			need[e]++
		}
		seen := map[walkmodel.Extraction]int{}
		kept := got[:0:0]
		for _, g := range got {
			seen[g]++
			if seen[g] > need[g] && seen[g] <= need[g]+opt[g] {
				continue
			}
			kept = append(kept, g)
		}
		got = kept
		o.Classes = append(o.Classes, "symlink_path_matches_dir_skip_rule")
	}
	if len(exp.DontCare) > 0 {
		o.Classes = append(o.Classes, "dont_care")
		for _, r := range exp.DontCare {
			o.Classes = append(o.Classes, "dont_care: "+strings.SplitN(r, " matches ", 2)[0])
		}
	} else {
		// (1) the Extract calls are exactly the model's.
		if d := diffCalls(got, exp.Calls); d != "" {
			return o, fmt.Errorf("Extract calls differ from the reference walk: %s", d)
		}
		o.NonTrivial = len(exp.Calls) > 0 && nExcl > 0
	}
	// (1b) every extractor is handed the whole file: what it can read from the reader is as long
	// as the file information it is given says (an extractor that runs after another one on the
	// same file must not find the reader where the first one left it)
	for _, cl := range out.Calls {
		if cl.Regular && cl.ReadErr == "" && cl.BytesRead != cl.InfoSize {
			return o, fmt.Errorf("Extract of %s on %s could read %d bytes from its reader, the file information says %d (other extractors called on this file: %v)", cl.Extractor, cl.Path, cl.BytesRead, cl.InfoSize, callsOn(out.Calls, cl.Path))
		}
	}
	// (2) AfterExtractorRun fired once per call.
	if len(out.ExtRuns) != len(out.Calls) {
		return o, fmt.Errorf("AfterExtractorRun fired %d times for %d Extract calls", len(out.ExtRuns), len(out.Calls))
	}
	// exactly-once per reaching path holds also in don't-care cases when no paths are requested
	if len(c.Cfg.PathsToExtract) == 0 && c.Tree2 == nil {
		seen := map[string]bool{}
		for _, g := range got {
			k := g.Ext + "\x00" + g.Path
			if seen[k] {
				return o, fmt.Errorf("extractor %s invoked twice on %q in a whole-tree scan", g.Ext, g.Path)
			}
			seen[k] = true
		}
	}
	// (3) the inventory is exactly the union of what the calls returned.
	wantPkgs := expectedPkgsFromCalls(out.Calls, c.Exts, absRoot, c.Cfg.StoreAbsolutePath)
	if d := diffPkgs(out.Packages, wantPkgs); d != "" {
		return o, fmt.Errorf("inventory is not the union of the Extract results: %s", d)
	}
	// (4) explicitly requesting a reached sub-directory = whole-tree scan restricted to it.
	if len(c.MetaDirs) > 0 && !c.RealFS && c.Tree2 == nil {
		base := c.Cfg
		base.PathsToExtract, base.IgnoreSubDirs = nil, false
		whole := out
		if len(c.Cfg.PathsToExtract) > 0 || c.Cfg.IgnoreSubDirs {
			whole = runScan(virtualRoot(memfs.New(c.Tree, memfs.Options{Order: c.Order, ReadDirFile: c.ReadDirFile})), base, c.Exts, nil)
		}
		visited := map[string]bool{}
		for _, p := range whole.Inodes {
			visited[p] = true
		}
		for _, d := range c.MetaDirs {
			if !visited[d] {
				o.Classes = append(o.Classes, "meta_dir_not_reached")
				continue
			}
			sub := base
			sub.PathsToExtract = []string{d}
			so := runScan(virtualRoot(memfs.New(c.Tree, memfs.Options{Order: c.Order, ReadDirFile: c.ReadDirFile})), sub, c.Exts, nil)
			if so.Panic != nil {
				return o, fmt.Errorf("scan of requested path %q panicked: %v", d, so.Panic)
			}
			var restricted []walkmodel.Extraction
			for _, g := range sortedCalls(whole.Calls) {
				if strings.HasPrefix(g.Path, d+"/") {
					restricted = append(restricted, g)
				}
			}
			if df := diffCalls(sortedCalls(so.Calls), restricted); df != "" {
				return o, fmt.Errorf("requesting sub-directory %q differs from the whole-tree scan restricted to it: %s", d, df)
			}
			o.Classes = append(o.Classes, "meta_dir_checked")
		}
	}
	return o, nil
}

func TestC01_memfs(t *testing.T) {
	ev.Check(t, ev.Get("C01"), ev.Scale(4000, 8000), genC01(false), propC01)
}

func TestC01_realfs(t *testing.T) {
	ev.Check(t, ev.Get("C01"), ev.Scale(300, 1500), genC01(true), propC01)
}

var _ = sort.Strings

func callsOn(calls []recext.Call, p string) []string {
	var out []string
	for _, c := range calls {
		if c.Path == p {
			out = append(out, c.Extractor)
		}
	}
	return out
}
