package scanfam

// C08 — scan results depend only on content, not on enumeration order or root count.

import (
	"fmt"
	"os"
	"path"
	"path/filepath"
	"sort"
	"strings"
	"testing"

	"github.com/google/osv-scalibr/detector"
	"github.com/google/osv-scalibr/extractor"
	scalibrfs "github.com/google/osv-scalibr/fs"
	"github.com/google/osv-scalibr/plugin"
	"pgregory.net/rapid"

	"verifharness/internal/ev"
	"verifharness/internal/memfs"
	"verifharness/internal/recext"
	"verifharness/internal/walkmodel"
)

type findingSpec struct {
	Ref   string `json:"ref"`
	Extra string `json:"extra"`
	// Alt gives the advisory another body: two findings with one reference and different
	// bodies make the detection stage (and thus the scan) fail, with the extraction results
	// still reported.
	Alt bool `json:"alt,omitempty"`
	// Target, when not empty, gives the finding target details (a package of that name and a
	// location): the documented order of findings is (advisory reference, extra), whatever the
	// target says.
	Target string `json:"target,omitempty"`
}

type c08Case struct {
	Trees       []memfs.Tree          `json:"trees"`
	Cfg         walkmodel.Config      `json:"cfg"`
	Exts        []recext.ExtSpec      `json:"exts"`
	Orders      []map[string][]string `json:"orders"` // for single-root cases: listing orders to compare
	Detectors   [][]findingSpec       `json:"detectors,omitempty"`
	MultiRoot   bool                  `json:"multi_root"`
	RealFS      bool                  `json:"real_fs,omitempty"` // multi-root cases: roots are real temp directories
	ReadDirFile bool                  `json:"read_dir_file"`
}

const c08MultirootDup = "c08.multiroot_dup"

func genC08(t *rapid.T) c08Case {
	col := ev.Get("C08")
	c := c08Case{}
	c.MultiRoot = rapid.IntRange(0, 3).Draw(t, "multi_root") == 0
	if c.MultiRoot && col.IsKnown(c08MultirootDup) {
		col.Excluded(c08MultirootDup)
		c.MultiRoot = false
	}
	nRoots := 1
	if c.MultiRoot {
		nRoots = rapid.IntRange(2, 3).Draw(t, "n_roots")
	}
	var resized []int // roots that hold the first tree with other file sizes
	for i := 0; i < nRoots; i++ {
		if i > 0 {
			switch rapid.IntRange(0, 5).Draw(t, "same_tree") {
			case 0:
				c.Trees = append(c.Trees, c.Trees[0])
				continue
			case 1, 2:
				c.Trees = append(c.Trees, c.Trees[0])
				resized = append(resized, i)
				continue
			case 3:
				// a root in which hardly anything is found: what an extractor found (and what
				// went wrong for it) in the other roots still decides its status
				c.Trees = append(c.Trees, memfs.Tree{Nodes: []memfs.Node{
					{Path: "only", Kind: memfs.KDir},
					{Path: "only/" + rapid.SampledFrom([]string{"q", "zz.none", "k.txt"}).Draw(t, "lone_file"), Kind: memfs.KFile, Content: "x"},
				}}.Normalize())
				continue
			}
		}
		c.Trees = append(c.Trees, genTree(t, treeOpts{MaxNodes: 20, MaxDepth: 3, Gitignore: true, Symlinks: true, Special: false}))
	}
	c.Cfg = genConfig(t, c.Trees[0], cfgOpts{AllowPaths: false, AllowSize: true})
	// the same paths in several roots, with files on the other side of the size limit: what is
	// known about a path in one root must not be used for the path of the same name in the next
	for _, i := range resized {
		limit := c.Cfg.MaxFileSize
		if limit < 1 {
			limit = 8
		}
		tr := memfs.Tree{Nodes: append([]memfs.Node(nil), c.Trees[0].Nodes...)}
		for k := range tr.Nodes {
			if tr.Nodes[k].Kind != memfs.KFile || path.Base(tr.Nodes[k].Path) == ".gitignore" {
				continue
			}
			n := rapid.SampledFrom([]int{-1, 0, limit - 1, limit, limit + 1, limit + 7}).Draw(t, "resize")
			if n >= 0 {
				tr.Nodes[k].Content = strings.Repeat("v", n)
			}
		}
		c.Trees[i] = tr
	}
	c.Cfg.StoreAbsolutePath = false
	if !c.MultiRoot && rapid.IntRange(0, 4).Draw(t, "gitignore_nest") == 0 {
		// ignore rules of a directory that holds, some levels down, a directory of its own name
		// without rules of its own, and entries the rules match on both sides of it in the
		// listing: whether they are ignored must not depend on when the walk comes back up
		n := rapid.SampledFrom([]string{"gg", "src", "node_modules"}).Draw(t, "nest_name")
		mid := rapid.SampledFrom([]string{"m", "m/k", n}).Draw(t, "nest_mid")
		pat := rapid.SampledFrom([]string{"z.txt", "*.txt", "zz/"}).Draw(t, "nest_pattern")
		extra := []memfs.Node{
			{Path: n, Kind: memfs.KDir},
			{Path: n + "/.gitignore", Kind: memfs.KFile, Content: pat + "\n"},
			{Path: n + "/" + mid + "/" + n, Kind: memfs.KDir},
			{Path: n + "/" + mid + "/" + n + "/z.txt", Kind: memfs.KFile, Content: "1"},
			{Path: n + "/" + mid + "/" + n + "/keep.lock", Kind: memfs.KFile, Content: "2"},
			{Path: n + "/z.txt", Kind: memfs.KFile, Content: "3"},
			{Path: n + "/a.txt", Kind: memfs.KFile, Content: "4"},
			{Path: n + "/zz", Kind: memfs.KDir},
			{Path: n + "/zz/z.txt", Kind: memfs.KFile, Content: "5"},
			{Path: n + "/" + mid + "/z.txt", Kind: memfs.KFile, Content: "6"},
		}
		have := map[string]bool{}
		for _, nd := range c.Trees[0].Nodes {
			have[nd.Path] = true
		}
		if !have[n] {
			c.Trees[0] = memfs.Tree{Nodes: append(append([]memfs.Node(nil), c.Trees[0].Nodes...), extra...)}.Normalize()
			c.Cfg.UseGitignore = true
		}
	}
	if c.MultiRoot {
		c.RealFS = rapid.Bool().Draw(t, "real_fs")
		c.Cfg.StoreAbsolutePath = rapid.Bool().Draw(t, "store_abs")
		c.Cfg.DirsToSkip = nil // skip lists are per-root absolute paths on a real file system
	}
	// extractors built to tie on sort keys: small name pool, several packages per file
	c.Exts = genExts(t, c.Trees[0], 3, rapid.IntRange(1, 3).Draw(t, "name_pool"))
	for i := range c.Exts {
		c.Exts[i].PkgsMod = rapid.IntRange(1, 3).Draw(t, "pkgs_mod2")
		c.Exts[i].FindingsMod = rapid.SampledFrom([]int{0, 0, 1, 2}).Draw(t, "findings_mod")
		c.Exts[i].ExtraLocs = rapid.SampledFrom([]int{0, 0, 1, 2}).Draw(t, "extra_locs")
		if rapid.Bool().Draw(t, "pred_all") {
			c.Exts[i].Pred = recext.Pred{Kind: "all"}
		}
	}
	c.ReadDirFile = rapid.Bool().Draw(t, "read_dir_file")
	if c.MultiRoot && len(c.Exts) > 0 && rapid.Bool().Draw(t, "multi_root_errs") {
		// an extractor that fails on every second file it is given
		c.Exts[rapid.IntRange(0, len(c.Exts)-1).Draw(t, "err_ext")].ErrMod = 2
	}
	if !c.MultiRoot {
		k := rapid.IntRange(2, 4).Draw(t, "n_orders")
		for i := 0; i < k; i++ {
			c.Orders = append(c.Orders, genOrder(t, c.Trees[0], fmt.Sprintf("order%d", i)))
		}
		nd := rapid.IntRange(0, 3).Draw(t, "n_detectors")
		for i := 0; i < nd; i++ {
			var fs []findingSpec
			nf := rapid.IntRange(0, 3).Draw(t, "n_findings")
			for j := 0; j < nf; j++ {
				fs = append(fs, findingSpec{
					Ref:    rapid.SampledFrom([]string{"ADV-1", "ADV-2", "ADV-3"}).Draw(t, "ref"),
					Extra:  rapid.SampledFrom([]string{"", "x", "y"}).Draw(t, "extra"),
					Alt:    rapid.IntRange(0, 7).Draw(t, "alt") == 0,
					Target: rapid.SampledFrom([]string{"", "", "zz", "mm", "aa"}).Draw(t, "target"),
				})
			}
			c.Detectors = append(c.Detectors, fs)
		}
	}
	return c
}

func mkDetectors(specs [][]findingSpec) []detector.Detector {
	var out []detector.Detector
	for i, fs := range specs {
		fs := fs
		out = append(out, &recext.Detector{N: fmt.Sprintf("fake/det%d", i), Findings: func() []*detector.Finding {
			var r []*detector.Finding
			for _, f := range fs {
				fd := &detector.Finding{
					Adv:   &detector.Advisory{ID: &detector.AdvisoryID{Publisher: "T", Reference: f.Ref}, Title: map[bool]string{false: "title ", true: "other title "}[f.Alt] + f.Ref},
					Extra: f.Extra,
				}
				if f.Target != "" {
					fd.Target = &detector.TargetDetails{Package: &extractor.Package{Name: f.Target, Version: "1", Locations: []string{f.Target + "/loc"}}, Location: []string{f.Target + "/cfg"}}
				}
				r = append(r, fd)
			}
			return r
		}})
	}
	return out
}

type findingKey struct{ Ref, Extra, Detectors string }

func findingKeys(out scanOut) []findingKey {
	var r []findingKey
	if out.Result == nil {
		return nil
	}
	for _, f := range out.Result.Inventory.Findings {
		k := findingKey{Extra: f.Extra, Detectors: fmt.Sprint(f.Detectors)}
		if f.Adv != nil && f.Adv.ID != nil {
			k.Ref = f.Adv.ID.Reference
		}
		r = append(r, k)
	}
	return r
}

// checkSorted verifies the documented output order: packages by (name, version, extractor
// name, ...), statuses by name, findings by (advisory reference, extra).
func checkSorted(out scanOut) error {
	for i := 1; i < len(out.Packages); i++ {
		a, b := out.Packages[i-1], out.Packages[i]
		// the last key is the printed form of the package's (sorted) location list
		ka := [4]string{a.Name, a.Version, a.Extractor, "[" + strings.ReplaceAll(a.Locations, "\x1f", " ") + "]"}
		kb := [4]string{b.Name, b.Version, b.Extractor, "[" + strings.ReplaceAll(b.Locations, "\x1f", " ") + "]"}
		for j := 0; j < 4; j++ {
			if ka[j] < kb[j] {
				break
			}
			if ka[j] > kb[j] {
				return fmt.Errorf("packages not sorted by (name, version, extractor, locations): %v before %v", a, b)
			}
		}
	}
	for _, p := range out.Packages {
		if locs := strings.Split(p.Locations, "\x1f"); !sort.StringsAreSorted(locs) {
			return fmt.Errorf("locations of package %s@%s are not sorted: %q", p.Name, p.Version, locs)
		}
	}
	for i := 1; i < len(out.Statuses); i++ {
		if out.Statuses[i-1].Name > out.Statuses[i].Name {
			return fmt.Errorf("plugin statuses not sorted by name: %q before %q", out.Statuses[i-1].Name, out.Statuses[i].Name)
		}
	}
	fk := findingKeys(out)
	for i := 1; i < len(fk); i++ {
		a, b := fk[i-1], fk[i]
		if a.Ref > b.Ref || (a.Ref == b.Ref && a.Extra > b.Extra) {
			return fmt.Errorf("findings not sorted by (advisory reference, extra): %v before %v", a, b)
		}
	}
	return nil
}

func propC08(c c08Case) (ev.Outcome, error) {
	var o ev.Outcome
	if len(c.Trees) == 0 {
		return o, nil
	}
	if !c.MultiRoot {
		o.Classes = append(o.Classes, "single_root_permutations")
		var first scanOut
		bigDirs := 0
		seen := map[string]bool{}
		for _, ord := range c.Orders {
			for d, ks := range ord {
				if len(ks) >= 2 && !seen[d] {
					seen[d] = true
					bigDirs++
				}
			}
		}
		for i, ord := range c.Orders {
			for _, rdf := range []bool{c.ReadDirFile, !c.ReadDirFile} {
				mfs := memfs.New(c.Trees[0], memfs.Options{Order: ord, ReadDirFile: rdf})
				out := runScan(virtualRoot(mfs), c.Cfg, c.Exts, &scanExtras{Detectors: mkDetectors(c.Detectors)})
				if out.Panic != nil {
					return o, fmt.Errorf("scan panicked: %v", out.Panic)
				}
				if err := checkSorted(out); err != nil {
					return o, err
				}
				if i == 0 && rdf == c.ReadDirFile {
					first = out
					continue
				}
				if fmt.Sprint(out.Packages) != fmt.Sprint(first.Packages) {
					if d := diffPkgs(out.Packages, first.Packages); d != "" {
						return o, fmt.Errorf("package multiset depends on the directory listing order (order %d, ReadDirFile=%v): %s", i, rdf, d)
					}
					return o, fmt.Errorf("package output order depends on the directory listing order (order %d, ReadDirFile=%v):\n %v\n %v", i, rdf, out.Packages, first.Packages)
				}
				if fmt.Sprint(out.Statuses) != fmt.Sprint(first.Statuses) || out.Status != first.Status {
					return o, fmt.Errorf("statuses depend on the directory listing order (order %d, ReadDirFile=%v): %v/%v vs %v/%v", i, rdf, out.Statuses, out.Status, first.Statuses, first.Status)
				}
				// findings: the same multiset (their documented order, (reference, extra), is decided
				// by checkSorted; findings that tie on both may come in any order)
				fa, fb := findingKeys(out), findingKeys(first)
				sort.Slice(fa, func(i, j int) bool { return fmt.Sprint(fa[i]) < fmt.Sprint(fa[j]) })
				sort.Slice(fb, func(i, j int) bool { return fmt.Sprint(fb[i]) < fmt.Sprint(fb[j]) })
				if fmt.Sprint(fa) != fmt.Sprint(fb) {
					return o, fmt.Errorf("findings depend on the directory listing order: %v vs %v", fa, fb)
				}
			}
		}
		ties := false
		for i := 1; i < len(first.Packages); i++ {
			if first.Packages[i].Name == first.Packages[i-1].Name {
				ties = true
			}
		}
		if ties {
			o.Classes = append(o.Classes, "packages_tie_on_name")
		}
		if first.Status == plugin.ScanStatusFailed {
			o.Classes = append(o.Classes, "failed_scan_with_results")
		}
		if len(findingKeys(first)) >= 2 {
			o.Classes = append(o.Classes, "two_or_more_findings")
		}
		o.NonTrivial = bigDirs >= 2 && len(first.Packages) >= 2
		return o, nil
	}

	// multi-root: union of the single-root scans, no package object twice.
	o.Classes = append(o.Classes, fmt.Sprintf("multi_root_%d", len(c.Trees)))
	var roots []*scalibrfs.ScanRoot
	var union []recext.PkgKey
	var unionFindings []findingKey
	rootsWithPkgs := 0
	// per extractor: did some root's scan report a problem, did some root's scan find something
	anyErr, found := map[string]bool{}, map[string]bool{}
	mkRoot := func(i int, tr memfs.Tree) (*scalibrfs.ScanRoot, error) {
		return &scalibrfs.ScanRoot{FS: memfs.New(tr, memfs.Options{ReadDirFile: c.ReadDirFile}), Path: ""}, nil
	}
	if c.RealFS {
		base, err := os.MkdirTemp(os.Getenv("VERIF_SCRATCH"), "c08-real-")
		if err != nil {
			return o, nil
		}
		defer os.RemoveAll(base)
		mkRoot = func(i int, tr memfs.Tree) (*scalibrfs.ScanRoot, error) {
			d := filepath.Join(base, fmt.Sprintf("root%d", i))
			if _, err := os.Stat(d); err != nil {
				if err := os.Mkdir(d, 0o755); err != nil {
					return nil, err
				}
				if err := materialise(d, tr); err != nil {
					return nil, err
				}
			}
			return scalibrfs.RealFSScanRoot(d), nil
		}
		o.Classes = append(o.Classes, "multi_root_real_fs")
		if c.Cfg.StoreAbsolutePath {
			o.Classes = append(o.Classes, "multi_root_real_fs_absolute_paths")
		}
	}
	for i, tr := range c.Trees {
		r1, err := mkRoot(i, tr)
		if err != nil {
			o.Classes = append(o.Classes, "real_fs_materialise_failed")
			return o, nil
		}
		single := runScan([]*scalibrfs.ScanRoot{r1}, c.Cfg, c.Exts, nil)
		if single.Panic != nil {
			return o, fmt.Errorf("scan panicked: %v", single.Panic)
		}
		union = append(union, single.Packages...)
		unionFindings = append(unionFindings, findingKeys(single)...)
		for _, st := range single.Statuses {
			if st.Status != plugin.ScanStatusSucceeded {
				anyErr[st.Name] = true
			}
			if st.Status == plugin.ScanStatusPartiallySucceeded {
				found[st.Name] = true
			}
		}
		for _, p := range single.Packages {
			found[p.Extractor] = true
		}
		if len(single.Packages) > 0 {
			rootsWithPkgs++
		}
		r2, _ := mkRoot(i, tr)
		roots = append(roots, r2)
	}
	multi := runScan(roots, c.Cfg, c.Exts, nil)
	if multi.Panic != nil {
		return o, fmt.Errorf("multi-root scan panicked: %v", multi.Panic)
	}
	if err := checkSorted(multi); err != nil {
		return o, err
	}
	if d := diffPkgs(multi.Packages, union); d != "" {
		return o, fmt.Errorf("scan of %d roots is not the union of the single-root scans: %s", len(c.Trees), d)
	}
	// the findings extractors put into their inventories are part of the result as well
	gotF, wantF := findingKeys(multi), unionFindings
	sortFK := func(x []findingKey) {
		sort.Slice(x, func(i, j int) bool { return fmt.Sprint(x[i]) < fmt.Sprint(x[j]) })
	}
	sortFK(gotF)
	sortFK(wantF)
	if fmt.Sprint(gotF) != fmt.Sprint(wantF) {
		return o, fmt.Errorf("scan of %d roots reports %d findings of extractors, the single-root scans %d: got %v, want %v", len(c.Trees), len(gotF), len(wantF), gotF, wantF)
	}
	if len(wantF) > 0 {
		o.Classes = append(o.Classes, "multi_root_extractor_findings")
	}
	// statuses: an extractor's status says whether anything went wrong for it in some root and
	// whether it found anything in some root, i.e. it is what the single-root statuses add up to
	specOf := map[string]recext.ExtSpec{}
	for _, e := range c.Exts {
		specOf[e.Name] = e
	}
	for _, st := range multi.Statuses {
		sp, ok := specOf[st.Name]
		if !ok {
			continue
		}
		want := plugin.ScanStatusSucceeded
		switch {
		case !anyErr[st.Name]:
		case found[st.Name]:
			want = plugin.ScanStatusPartiallySucceeded
		case sp.FindingsMod == 0:
			want = plugin.ScanStatusFailed
		default:
			continue // it may have found findings only, which the single-root statuses do not show
		}
		if anyErr[st.Name] {
			o.Classes = append(o.Classes, "multi_root_extractor_with_errors")
		}
		if st.Status != want {
			return o, fmt.Errorf("scan of %d roots reports status %v for %s; the single-root scans add up to %v (something went wrong in some root: %v, something was found in some root: %v)", len(c.Trees), st.Status, st.Name, want, anyErr[st.Name], found[st.Name])
		}
	}
	ptr := map[*extractor.Package]bool{}
	for _, p := range multi.Result.Inventory.Packages {
		if ptr[p] {
			return o, fmt.Errorf("package object %s@%s reported twice", p.Name, p.Version)
		}
		ptr[p] = true
	}
	o.NonTrivial = rootsWithPkgs >= 2
	return o, nil
}

func TestC08(t *testing.T) {
	ev.Check(t, ev.Get("C08"), ev.Scale(2400, 6000), genC08, propC08)
}
