package scanfam

// C09 — filesystem faults are contained, surfaced, and fatal only on request.
//
// For every generated small tree the fault space is ENUMERATED: a fault-free probe run
// logs every FS operation; then every single fault (each logged operation x 3 error
// kinds) and every pair (exhaustive when small, otherwise sampled) is injected, for the
// 2x2x2 option combinations fatal-on-error x size-limit x directory-handle mode.

import (
	"fmt"
	"path"
	"sort"
	"strings"
	"testing"
	"time"

	"github.com/google/osv-scalibr/plugin"
	"pgregory.net/rapid"

	"verifharness/internal/ev"
	"verifharness/internal/memfs"
	"verifharness/internal/recext"
	"verifharness/internal/walkmodel"
)

type c09Case struct {
	Tree walkmodel_Tree   `json:"tree"`
	Cfg  walkmodel.Config `json:"cfg"`
	Exts []recext.ExtSpec `json:"exts"`
	// PairSeed selects which pairs are sampled when the pair space is large.
	PairSeed uint32 `json:"pair_seed"`
	// RealRootPath: the scan root carries a path (ScanRoot.Path), as the roots of a directory
	// scan do, while the file system stays the fault-injecting one.
	RealRootPath bool `json:"real_root_path,omitempty"`
	// SecondRoot adds a fault-free second scan root with a few files of its own, scanned before
	// (1) or after (2) the faulted one: what an extractor finds there counts as "other results"
	// when one of its files in the faulted root cannot be read.
	SecondRoot int `json:"second_root,omitempty"`
	// Only, when non-empty, restricts the run to these fault sets (replay of one finding).
	Only []c09Run `json:"only,omitempty"`
}

type walkmodel_Tree = memfs.Tree

// c09OpBudget bounds the file-system operations of one scan of a generated tree (a dozen
// nodes, a few hundred operations): see memfs.Options.OpBudget.
const c09OpBudget = 1 << 20

// c09SecondTree is the content of the fault-free second scan root (names no generated tree uses).
var c09SecondTree = memfs.Tree{Nodes: []memfs.Node{
	{Path: "zz2", Kind: memfs.KDir},
	{Path: "zz2/one.txt", Kind: memfs.KFile, Content: "1"},
	{Path: "zz2/two.lock", Kind: memfs.KFile, Content: "22"},
	{Path: "zz2/three.json", Kind: memfs.KFile, Content: "333"},
	{Path: "zz2/sub", Kind: memfs.KDir},
	{Path: "zz2/sub/four.txt", Kind: memfs.KFile, Content: "4444"},
}}.Normalize()

type c09Run struct {
	Faults      []memfs.Fault `json:"faults"`
	ErrorOnFS   bool          `json:"error_on_fs_errors"`
	MaxFileSize int           `json:"max_file_size"`
	ReadDirFile bool          `json:"read_dir_file"`
}

type c09Sub struct {
	Scenario string  `json:"scenario"`
	Run      c09Run  `json:"run"`
	Case     c09Case `json:"case"`
}

const c09GitignoreOpen = "c09.gitignore_unreadable"

func genC09(t *rapid.T) c09Case {
	c := c09Case{}
	c.Tree = genTree(t, treeOpts{MaxNodes: 12, MaxDepth: 3, Gitignore: true, Symlinks: true, Special: false})
	c.Exts = genExts(t, c.Tree, 2, 0)
	for i := range c.Exts {
		if rapid.Bool().Draw(t, "pred_all") {
			c.Exts[i].Pred = recext.Pred{Kind: "all"}
		}
		if c.Exts[i].PkgsMod == 0 {
			c.Exts[i].PkgsMod = 1
		}
	}
	c.Cfg.UseGitignore = rapid.Bool().Draw(t, "use_gitignore")
	c.Cfg.ReadSymlinks = rapid.Bool().Draw(t, "read_symlinks")
	c.PairSeed = rapid.Uint32().Draw(t, "pair_seed")
	// a third of the cases list the paths to extract: faults then also hit the stat of a
	// listed path, and the paths listed after it must be handled as in a fault-free scan
	if rapid.IntRange(0, 2).Draw(t, "use_paths") == 0 && len(c.Tree.Nodes) > 0 {
		n := rapid.IntRange(2, 4).Draw(t, "n_paths")
		for i := 0; i < n; i++ {
			if rapid.IntRange(0, 7).Draw(t, "missing_path") == 0 {
				c.Cfg.PathsToExtract = append(c.Cfg.PathsToExtract, "no/such/path")
				continue
			}
			c.Cfg.PathsToExtract = append(c.Cfg.PathsToExtract, c.Tree.Nodes[rapid.IntRange(0, len(c.Tree.Nodes)-1).Draw(t, "path_node")].Path)
		}
		c.Cfg.IgnoreSubDirs = rapid.IntRange(0, 3).Draw(t, "ignore_subdirs") == 0
	} else {
		c.RealRootPath = rapid.IntRange(0, 2).Draw(t, "real_root_path") == 0
		if rapid.IntRange(0, 3).Draw(t, "second_root") == 0 {
			c.SecondRoot = rapid.IntRange(1, 2).Draw(t, "second_root_position")
		}
	}
	return c
}

func lstatKind(tr memfs.Tree, p string) string {
	if p == "." {
		return memfs.KDir
	}
	for _, n := range tr.Nodes {
		if n.Path == p {
			return n.Kind
		}
	}
	return ""
}

// region returns the path prefix whose results a fault may legitimately affect, and
// whether the fault is a traversal fault.
func faultRegion(tr memfs.Tree, f memfs.Fault) (region string, traversal bool, gitignore bool) {
	if path.Base(f.Path) == ".gitignore" && f.Site != "stat" {
		// the directory's ignore rules are unknown: its whole subtree is the failing region
		return path.Dir(f.Path), false, true
	}
	kind := lstatKind(tr, f.Path)
	switch f.Site {
	case "readdir":
		return f.Path, true, false
	case "open", "stat", "fstat":
		if kind == memfs.KDir {
			return f.Path, true, false
		}
	}
	return f.Path, false, false
}

func inRegion(p, region string) bool {
	return region == "." || p == region || strings.HasPrefix(p, region+"/")
}

func statusOf(out scanOut, name string) (plugin.ScanStatusEnum, bool) {
	for _, s := range out.Statuses {
		if s.Name == name {
			return s.Status, true
		}
	}
	return 0, false
}

func (c c09Case) run(r c09Run) scanOut {
	cfg := c.Cfg
	cfg.ErrorOnFSErrors = r.ErrorOnFS
	cfg.MaxFileSize = r.MaxFileSize
	mfs := memfs.New(c.Tree, memfs.Options{ReadDirFile: r.ReadDirFile, Faults: r.Faults, OpBudget: c09OpBudget})
	// "the scan still terminates": a scan of a dozen in-memory nodes takes milliseconds; one
	// that has not returned after five minutes is reported as non-terminating (a short limit is not a correctness signal on a busy machine).
	done := make(chan scanOut, 1)
	roots := virtualRoot(mfs)
	if c.RealRootPath {
		roots[0].Path = "/verif-c09-root"
	}
	if c.SecondRoot != 0 {
		other := virtualRoot(memfs.New(c09SecondTree, memfs.Options{ReadDirFile: r.ReadDirFile}))
		if c.RealRootPath {
			other[0].Path = "/verif-c09-other"
		}
		if c.SecondRoot == 1 {
			roots = append(other, roots...)
		} else {
			roots = append(roots, other...)
		}
	}
	go func() { done <- runScan(roots, cfg, c.Exts, nil) }()
	// a walk that keeps calling the file system without end is decided by the count of its
	// calls, which does not depend on how busy the machine is
	spun := make(chan scanOut, 1)
	stop := make(chan struct{})
	defer close(stop)
	go func() {
		tick := time.NewTicker(50 * time.Millisecond)
		defer tick.Stop()
		for {
			select {
			case <-stop:
				return
			case <-tick.C:
				if mfs.Exceeded() {
					spun <- scanOut{Panic: fmt.Sprintf("the scan does not terminate: it made more than %d file-system operations on a tree of %d nodes", c09OpBudget, len(c.Tree.Nodes))}
					return
				}
			}
		}
	}()
	merged := make(chan scanOut, 2)
	go func() {
		select {
		case o := <-done:
			merged <- o
		case o := <-spun:
			merged <- o
		case <-stop:
		}
	}()
	if out, ok := ev.Await(merged, 20*time.Second, ev.HangLimit); ok {
		return out
	}
	return scanOut{Panic: fmt.Sprintf("the scan did not return within %v (%d file-system operations so far)", ev.HangLimit, len(mfs.Log()))}
}

// decide checks one faulted run against the fault-free run of the same options.
func (c c09Case) decide(r c09Run, clean scanOut) (reached bool, othersExpected bool, err error) {
	out := c.run(r)
	if out.Panic != nil {
		return true, false, fmt.Errorf("scan panicked or did not terminate under faults %v: %v", r.Faults, out.Panic)
	}
	if out.AfterScans != 1 {
		return true, false, fmt.Errorf("scan did not complete exactly once (AfterScan fired %d times)", out.AfterScans)
	}
	var regions []string
	var hitFaults []memfs.Fault
	anyTraversal, anyGitignore := false, false
	for _, f := range r.Faults {
		hit := false
		for _, op := range out.Ops {
			if op.Failed && op.Site == f.Site && op.Path == f.Path && op.N == f.N {
				hit = true
			}
		}
		if !hit {
			continue
		}
		reached = true
		hitFaults = append(hitFaults, f)
		reg, trav, gi := faultRegion(c.Tree, f)
		regions = append(regions, reg)
		anyTraversal = anyTraversal || trav
		anyGitignore = anyGitignore || gi
	}
	if !reached {
		// identical to the fault-free run
		if d := diffCalls(sortedCalls(out.Calls), sortedCalls(clean.Calls)); d != "" {
			return false, false, fmt.Errorf("fault %v was never reached but the Extract calls changed: %s", r.Faults, d)
		}
		return false, false, nil
	}
	outside := func(p string) bool {
		for _, reg := range regions {
			if inRegion(p, reg) {
				return false
			}
		}
		return true
	}
	fatalExpected := r.ErrorOnFS && anyTraversal
	if !r.ErrorOnFS {
		// (4) without the fatal flag no fault makes the overall scan fail
		if out.Status != plugin.ScanStatusSucceeded {
			return true, false, fmt.Errorf("faults %v made the overall scan fail (%q) although filesystem errors are not fatal", r.Faults, out.Reason)
		}
	} else if fatalExpected {
		if out.Status != plugin.ScanStatusFailed {
			return true, false, fmt.Errorf("traversal fault %v with fatal-on-error set, but the scan status is %v", r.Faults, out.Status)
		}
		return true, false, nil // results of a failed scan are not reported
	}
	if out.Status != plugin.ScanStatusSucceeded {
		// fatal flag set and a file-level fault: whether that is fatal is not pinned by the property
		return true, false, nil
	}
	// (2) outside the failing regions: identical calls and packages; inside: a subset
	// (nothing is asserted inside the region of an unreadable .gitignore).
	var gotOut, wantOut []walkmodel.Extraction
	gotIn := map[walkmodel.Extraction]int{}
	for _, g := range sortedCalls(out.Calls) {
		if outside(g.Path) {
			gotOut = append(gotOut, g)
		} else {
			gotIn[g]++
		}
	}
	wantIn := map[walkmodel.Extraction]int{}
	for _, g := range sortedCalls(clean.Calls) {
		if outside(g.Path) {
			wantOut = append(wantOut, g)
		} else {
			wantIn[g]++
		}
	}
	if d := diffCalls(gotOut, wantOut); d != "" {
		return true, false, fmt.Errorf("faults %v changed Extract calls outside the failing region %v: %s", r.Faults, regions, d)
	}
	if !anyGitignore {
		for k, n := range gotIn {
			if n > wantIn[k] {
				return true, false, fmt.Errorf("faults %v caused an extra Extract call %v inside the failing region", r.Faults, k)
			}
		}
	}
	var pOut, pWant []recext.PkgKey
	for _, p := range out.Packages {
		if outside(p.Locations) {
			pOut = append(pOut, p)
		}
	}
	for _, p := range clean.Packages {
		if outside(p.Locations) {
			pWant = append(pWant, p)
		}
	}
	if d := diffPkgs(pOut, pWant); d != "" {
		return true, false, fmt.Errorf("faults %v changed packages outside the failing region %v: %s", r.Faults, regions, d)
	}
	othersExpected = len(wantOut) > 0
	// (3) statuses: an extractor that lost a call on a required file through a file-level
	// fault (open / fstat / read) is Failed, or PartiallySucceeded if it reported inventory;
	// extractors not touched by the fault keep their fault-free status.
	hasPkgs := map[string]bool{}
	for _, p := range out.Packages {
		hasPkgs[p.Extractor] = true
	}
	affected := map[string]bool{}
	for _, f := range hitFaults {
		_, trav, gi := faultRegion(c.Tree, f)
		if trav || gi || f.Site == "stat" {
			continue
		}
		// which extractor lost its call on f.Path, or saw the read error? (a lazy-stat fault
		// hit on the same path makes the attribution of a lost call ambiguous: not asserted)
		statOnSame := false
		for _, g := range hitFaults {
			if g.Site == "stat" && g.Path == f.Path {
				statOnSame = true
			}
			// with listed paths one file can be reached by several walks: when another fault
			// hit took a whole region containing the file away from one of them, a missing call
			// cannot be charged to this fault
			if g != f {
				// (an open or stat fault on a symlink that leads to a directory takes the walk of
				// that directory away as well, when the symlink is a listed path)
				if reg, trav, gi := faultRegion(c.Tree, g); (trav || gi || g.Site == "stat" || lstatKind(c.Tree, g.Path) == memfs.KSymlink) && inRegion(f.Path, reg) {
					statOnSame = true
				}
			}
		}
		for _, e := range c.Exts {
			k := walkmodel.Extraction{Ext: e.Name, Path: f.Path}
			lost := f.Site != "read" && !statOnSame && gotIn[k] < wantIn[k]
			readErr := false
			for _, cl := range out.Calls {
				if f.Site == "read" && cl.Extractor == e.Name && cl.Path == f.Path && cl.ReadErr != "" {
					readErr = true
				}
			}
			if lost || readErr {
				affected[e.Name] = true
				st, ok := statusOf(out, e.Name)
				want := plugin.ScanStatusFailed
				if hasPkgs[e.Name] {
					want = plugin.ScanStatusPartiallySucceeded
				}
				if !ok || st != want {
					return true, othersExpected, fmt.Errorf("fault %v (of %v) on a file required by %s: its status is %v, want %v (reported inventory elsewhere: %v); statuses %v calls %v", f, r.Faults, e.Name, st, want, hasPkgs[e.Name], out.Statuses, out.Calls)
				}
			}
		}
	}
	// extractors with identical calls and no read errors keep their status
	for _, e := range c.Exts {
		if affected[e.Name] {
			continue
		}
		same := true
		for k, n := range wantIn {
			if k.Ext == e.Name && gotIn[k] != n {
				same = false
			}
		}
		for k, n := range gotIn {
			if k.Ext == e.Name && wantIn[k] != n {
				same = false
			}
		}
		for _, cl := range out.Calls {
			if cl.Extractor == e.Name && cl.ReadErr != "" {
				same = false
			}
		}
		// an extractor that requires any entry inside a failing region may legitimately
		// gain or lose errors there (e.g. a dangling symlink it could not open)
		mfs := memfs.New(c.Tree, memfs.Options{})
		for _, n := range c.Tree.Nodes {
			if n.Kind == memfs.KDir || outside(n.Path) {
				continue
			}
			np := n.Path
			if e.Pred.Matches(np, func() (uint32, bool) {
				_, t, err := mfs.Lookup(np, true)
				if err != nil {
					return 0, false
				}
				m := t.Mode & 0o777
				if m == 0 {
					m = 0o644
				}
				return m, true
			}) || e.Pred.Kind == "exec" {
				same = false
			}
		}
		if !same {
			continue
		}
		// a lazy-stat failure may be charged to the extractor that required the file
		statFault := false
		for _, f := range hitFaults {
			if f.Site == "stat" {
				statFault = true
			}
		}
		if statFault {
			continue
		}
		a, _ := statusOf(out, e.Name)
		b, _ := statusOf(clean, e.Name)
		if a != b {
			return true, othersExpected, fmt.Errorf("faults %v changed the status of untouched extractor %s from %v to %v", r.Faults, e.Name, b, a)
		}
	}
	return true, othersExpected, nil
}

func propC09(c c09Case) (ev.Outcome, error) {
	col := ev.Get("C09")
	var o ev.Outcome
	scen := fmt.Sprintf("%08x", recext.Hash(fmt.Sprint(c.Tree, c.Cfg, c.Exts)))
	record := func(r c09Run, reached, others bool, err error) {
		classes := []string{fmt.Sprintf("faults_%d", len(r.Faults))}
		for _, f := range r.Faults {
			if reached {
				classes = append(classes, "site_"+f.Site, "err_"+f.Err)
				if f.Sticky {
					classes = append(classes, "sticky_fault")
				}
			}
		}
		if !reached {
			classes = append(classes, "fault_not_reached")
		}
		col.Record(c09Sub{Scenario: scen, Run: r, Case: c09Case{Tree: c.Tree, Cfg: c.Cfg, Exts: c.Exts, Only: []c09Run{r}}},
			ev.Outcome{NonTrivial: reached && others, Classes: classes, Key: scen + fmt.Sprint(r)}, nil)
		_ = err
	}
	if len(c.Only) > 0 {
		for _, r := range c.Only {
			clean := c.run(c09Run{ErrorOnFS: r.ErrorOnFS, MaxFileSize: r.MaxFileSize, ReadDirFile: r.ReadDirFile})
			if _, _, err := c.decide(r, clean); err != nil {
				return o, err
			}
		}
		return o, nil
	}
	// size limit: the median file size, so that some files are over and some under
	var sizes []int
	for _, n := range c.Tree.Nodes {
		if n.Kind == memfs.KFile {
			sizes = append(sizes, len(n.Content))
		}
	}
	sort.Ints(sizes)
	limit := 32
	if len(sizes) > 0 {
		limit = sizes[len(sizes)/2] + 1
	}
	knownGi := col.IsKnown(c09GitignoreOpen)
	for _, fatal := range []bool{false, true} {
		for _, size := range []int{0, limit} {
			for _, rdf := range []bool{true, false} {
				base := c09Run{ErrorOnFS: fatal, MaxFileSize: size, ReadDirFile: rdf}
				clean := c.run(base)
				if clean.Panic != nil {
					return o, fmt.Errorf("fault-free scan panicked: %v", clean.Panic)
				}
				if clean.Status != plugin.ScanStatusSucceeded {
					if fatal {
						// the tree itself holds an unresolvable entry (dangling symlink under a size
						// limit); with fatal-on-error that legitimately fails the scan: no baseline.
						o.Classes = append(o.Classes, "baseline_fatal_on_intrinsic_error")
						continue
					}
					return o, fmt.Errorf("fault-free scan failed: %s", clean.Reason)
				}
				// every logged operation is a fault site
				var sites []memfs.Fault
				seen := map[string]bool{}
				for _, op := range clean.Ops {
					k := fmt.Sprint(op.Site, "|", op.Path, "|", op.N)
					if seen[k] || op.Site == "open-special" {
						continue
					}
					seen[k] = true
					sites = append(sites, memfs.Fault{Site: op.Site, Path: op.Path, N: op.N})
				}
				// a read-dir handle may be asked once more than in the clean run? no: EOF ends it.
				var singles []memfs.Fault
				for _, s := range sites {
					for _, kind := range []string{"perm", "io", "notexist"} {
						f := s
						f.Err = kind
						if knownGi && path.Base(f.Path) == ".gitignore" && f.Site != "stat" && kind != "notexist" {
							col.Excluded(c09GitignoreOpen)
							continue
						}
						singles = append(singles, f)
					}
				}
				// a persistently failing directory (every read from the k-th on fails) or file
				for _, f := range append([]memfs.Fault(nil), singles...) {
					if f.Site == "readdir" || f.Site == "read" {
						f.Sticky = true
						singles = append(singles, f)
					}
				}
				for _, f := range singles {
					r := base
					r.Faults = []memfs.Fault{f}
					reached, others, err := c.decide(r, clean)
					record(r, reached, others, err)
					if err != nil {
						return o, fmt.Errorf("%w\n  (options: fatal=%v size_limit=%d read_dir_file=%v)", err, fatal, size, rdf)
					}
				}
				// pairs: exhaustive when small, else a deterministic sample of 150
				nPairs := len(singles) * (len(singles) - 1) / 2
				step := 1
				if nPairs > 400 {
					step = nPairs/150 + 1
				}
				idx := int(c.PairSeed % uint32(step))
				k := 0
				for i := 0; i < len(singles); i++ {
					for j := i + 1; j < len(singles); j++ {
						k++
						if (k+idx)%step != 0 {
							continue
						}
						if singles[i].Site == singles[j].Site && singles[i].Path == singles[j].Path && singles[i].N == singles[j].N {
							continue
						}
						r := base
						r.Faults = []memfs.Fault{singles[i], singles[j]}
						reached, others, err := c.decide(r, clean)
						record(r, reached, others, err)
						if err != nil {
							return o, fmt.Errorf("%w\n  (options: fatal=%v size_limit=%d read_dir_file=%v)", err, fatal, size, rdf)
						}
					}
				}
				if step == 1 {
					o.Classes = append(o.Classes, "pairs_exhaustive")
				} else {
					o.Classes = append(o.Classes, "pairs_sampled")
				}
			}
		}
	}
	o.Classes = append(o.Classes, "scenario")
	if len(c.Cfg.PathsToExtract) > 0 {
		o.Classes = append(o.Classes, "scenario_with_listed_paths")
	}
	if c.RealRootPath {
		o.Classes = append(o.Classes, "scenario_root_with_path")
	}
	if c.SecondRoot != 0 {
		o.Classes = append(o.Classes, fmt.Sprintf("scenario_with_fault_free_second_root_%d", c.SecondRoot))
	}
	return o, nil
}

func TestC09(t *testing.T) {
	ev.Check(t, ev.Get("C09"), ev.Scale(60, 150), genC09, propC09)
}
