package scanfam

// C10 (scan part) — resource limits and cancellation are hard bounds.
//
// For every generated tree the boundary values are ENUMERATED: inode limits
// {1, n-1, n, n+1}, size limits {s-1, s, s+1} for every file size s, and every
// cancellation point (before the scan, inside the k-th Extract for every k, at the j-th
// visited inode for every j).

import (
	"context"
	"fmt"
	"sort"
	"strings"
	"sync"
	"testing"

	"github.com/google/osv-scalibr/detector"
	"github.com/google/osv-scalibr/extractor/standalone"
	scalibrfs "github.com/google/osv-scalibr/fs"
	"github.com/google/osv-scalibr/plugin"
	"pgregory.net/rapid"

	"verifharness/internal/ev"
	"verifharness/internal/memfs"
	"verifharness/internal/recext"
	"verifharness/internal/walkmodel"
)

type c10Case struct {
	Trees       []memfs.Tree     `json:"trees"`
	Cfg         walkmodel.Config `json:"cfg"`
	Exts        []recext.ExtSpec `json:"exts"`
	NStandalone int              `json:"n_standalone"`
	NDetectors  int              `json:"n_detectors"`
	ReadDirFile bool             `json:"read_dir_file"`
	Only        []c10Run         `json:"only,omitempty"`
}

type c10Run struct {
	Mode  string `json:"mode"` // inodes | size | cancel_before | cancel_extract | cancel_inode | cancel_standalone | cancel_detector
	Param int    `json:"param"`
	// Deadline: the context ends the way a context.WithDeadline / WithTimeout does (its error is
	// context.DeadlineExceeded) instead of through cancel() (context.Canceled).
	Deadline bool `json:"deadline,omitempty"`
}

// endableCtx is a context the harness ends by hand with either of the two standard errors, so
// that "the deadline passed at this very point" needs no clock.
type endableCtx struct {
	context.Context
	mu   sync.Mutex
	done chan struct{}
	err  error
}

func newEndableCtx() *endableCtx {
	return &endableCtx{Context: context.Background(), done: make(chan struct{})}
}

func (c *endableCtx) Done() <-chan struct{} { return c.done }

func (c *endableCtx) Err() error {
	c.mu.Lock()
	defer c.mu.Unlock()
	return c.err
}

func (c *endableCtx) end(err error) {
	c.mu.Lock()
	defer c.mu.Unlock()
	if c.err == nil {
		c.err = err
		close(c.done)
	}
}

type c10Sub struct {
	Scenario string  `json:"scenario"`
	Run      c10Run  `json:"run"`
	Case     c10Case `json:"case"`
}

func genC10(t *rapid.T) c10Case {
	c := c10Case{}
	n := 1
	if rapid.IntRange(0, 3).Draw(t, "two_roots") == 0 {
		n = 2
	}
	for i := 0; i < n; i++ {
		if i > 0 && rapid.Bool().Draw(t, "same_paths") {
			// the second root holds the same paths with files of other sizes; in a third of
			// these cases both roots are cut down to one file, so that the last file of one root
			// and the first file of the next have the same path
			first := c.Trees[0]
			if files := treeFiles(first); len(files) > 0 && rapid.IntRange(0, 2).Draw(t, "one_file") == 0 {
				keep := rapid.SampledFrom(files).Draw(t, "kept_file")
				var nodes []memfs.Node
				for _, nd := range first.Nodes {
					if nd.Path == keep || (nd.Kind == memfs.KDir && strings.HasPrefix(keep, nd.Path+"/")) {
						nodes = append(nodes, nd)
					}
				}
				first = memfs.Tree{Nodes: nodes}.Normalize()
				c.Trees[0] = first
			}
			tr := memfs.Tree{Nodes: append([]memfs.Node(nil), first.Nodes...)}
			for k := range tr.Nodes {
				if tr.Nodes[k].Kind == memfs.KFile {
					tr.Nodes[k].Content = strings.Repeat("w", rapid.SampledFrom([]int{0, 1, 2, 5, 9, 17, 40}).Draw(t, "other_size"))
				}
			}
			c.Trees = append(c.Trees, tr)
			continue
		}
		c.Trees = append(c.Trees, genTree(t, treeOpts{MaxNodes: 14, MaxDepth: 3, Gitignore: false, Symlinks: true, Special: true}))
	}
	c.Exts = genExts(t, c.Trees[0], 3, 0)
	for i := range c.Exts {
		c.Exts[i].ErrMod = 0
		if rapid.Bool().Draw(t, "pred_all") {
			c.Exts[i].Pred = recext.Pred{Kind: "all"}
		}
	}
	c.Cfg.ReadSymlinks = rapid.Bool().Draw(t, "read_symlinks")
	if files := treeFiles(c.Trees[0]); n == 1 && len(files) >= 2 && rapid.IntRange(0, 2).Draw(t, "listed_paths") == 0 {
		// individually requested files (and sometimes a directory): limits and cancellation
		// hold for them as for a walk
		k := rapid.IntRange(2, 4).Draw(t, "n_listed")
		for i := 0; i < k; i++ {
			c.Cfg.PathsToExtract = append(c.Cfg.PathsToExtract, rapid.SampledFrom(files).Draw(t, "listed"))
		}
		if dirs := treeDirs(c.Trees[0]); len(dirs) > 0 && rapid.IntRange(0, 2).Draw(t, "listed_dir") == 0 {
			c.Cfg.PathsToExtract = append(c.Cfg.PathsToExtract, rapid.SampledFrom(dirs).Draw(t, "listed_d"))
		}
	}
	c.NStandalone = rapid.IntRange(0, 2).Draw(t, "n_standalone")
	c.NDetectors = rapid.IntRange(0, 2).Draw(t, "n_detectors")
	c.ReadDirFile = rapid.Bool().Draw(t, "read_dir_file")
	return c
}

type c10Obs struct {
	out    scanOut
	events []string
}

func (c c10Case) roots() []*scalibrfs.ScanRoot {
	var roots []*scalibrfs.ScanRoot
	for _, tr := range c.Trees {
		roots = append(roots, &scalibrfs.ScanRoot{FS: memfs.New(tr, memfs.Options{ReadDirFile: c.ReadDirFile}), Path: ""})
	}
	return roots
}

func (c c10Case) run(r c10Run) scanOut {
	cfg := c.Cfg
	rec := &recext.Recorder{}
	ectx := newEndableCtx()
	var ctx context.Context = ectx
	cancel := func() {
		if r.Deadline {
			ectx.end(context.DeadlineExceeded)
		} else {
			ectx.end(context.Canceled)
		}
	}
	defer ectx.end(context.Canceled)
	switch r.Mode {
	case "inodes":
		cfg.MaxInodes = r.Param
	case "size":
		cfg.MaxFileSize = r.Param
	case "cancel_before":
		cancel()
	case "cancel_extract":
		rec.OnExtract = func(seq int, ext, p string) {
			if seq == r.Param {
				rec.Event("CANCEL")
				cancel()
			}
		}
	case "cancel_inode":
		rec.OnInode = func(n int, p string) {
			if n == r.Param {
				rec.Event("CANCEL")
				cancel()
			}
		}
	}
	ex := &scanExtras{Ctx: ctx, Rec: rec}
	// cancel_standalone / cancel_detector: Param = 2*k + v cancels inside the k-th plugin of
	// that kind, which then returns nil (v = 0) or the context's error (v = 1)
	onRun := func(mode string, i int) func(context.Context) error {
		if r.Mode != mode || r.Param/2 != i {
			return nil
		}
		return func(ctx context.Context) error {
			rec.Event("CANCEL")
			cancel()
			if r.Param%2 == 1 {
				return ctx.Err()
			}
			return nil
		}
	}
	for i := 0; i < c.NStandalone; i++ {
		ex.Standalone = append(ex.Standalone, standalone.Extractor(&recext.SAExtractor{N: fmt.Sprintf("fake/sa%d", i), Rec: rec, Pkgs: 1, OnRun: onRun("cancel_standalone", i)}))
	}
	for i := 0; i < c.NDetectors; i++ {
		ex.Detectors = append(ex.Detectors, detector.Detector(&recext.Detector{N: fmt.Sprintf("fake/det%d", i), Rec: rec, OnRun: onRun("cancel_detector", i)}))
	}
	return runScan(c.roots(), cfg, c.Exts, ex)
}

func (c c10Case) decide(r c10Run, base scanOut) (nontrivial bool, err error) {
	out := c.run(r)
	if out.Panic != nil {
		return false, fmt.Errorf("scan panicked (%v): %v", r, out.Panic)
	}
	nBase := len(base.Inodes)
	switch r.Mode {
	case "inodes":
		L := r.Param
		if len(out.Inodes) > L {
			return true, fmt.Errorf("inode limit %d: %d inodes were processed", L, len(out.Inodes))
		}
		if nBase > L {
			if out.Status != plugin.ScanStatusFailed {
				return true, fmt.Errorf("inode limit %d on a walk that needs %d inodes: status %v, want failed", L, nBase, out.Status)
			}
		} else {
			if out.Status != plugin.ScanStatusSucceeded {
				return true, fmt.Errorf("inode limit %d on a walk that needs only %d inodes: scan failed (%s)", L, nBase, out.Reason)
			}
			if d := diffCalls(sortedCalls(out.Calls), sortedCalls(base.Calls)); d != "" {
				return true, fmt.Errorf("inode limit %d >= needed %d changed the extractions: %s", L, nBase, d)
			}
		}
		return L >= nBase-1 && L <= nBase+1, nil
	case "size":
		L := int64(r.Param)
		near := false
		for _, cl := range out.Calls {
			if cl.InfoSize > L || cl.BytesRead > L {
				return true, fmt.Errorf("size limit %d: extractor %s was handed %q with size %d (%d bytes readable)", L, cl.Extractor, cl.Path, cl.InfoSize, cl.BytesRead)
			}
		}
		// files at or below the limit are still extracted
		var want []walkmodel.Extraction
		for _, cl := range base.Calls {
			if cl.InfoSize <= L {
				want = append(want, walkmodel.Extraction{Ext: cl.Extractor, Path: cl.Path})
			}
			if cl.InfoSize >= L-1 && cl.InfoSize <= L+1 {
				near = true
			}
		}
		sort.Slice(want, func(i, j int) bool {
			if want[i].Path != want[j].Path {
				return want[i].Path < want[j].Path
			}
			return want[i].Ext < want[j].Ext
		})
		if d := diffCalls(sortedCalls(out.Calls), want); d != "" {
			return true, fmt.Errorf("size limit %d: extractions are not the unlimited ones restricted to files of size <= limit: %s", L, d)
		}
		return near, nil
	}
	// cancellation
	cancelAt := -1
	for i, e := range out.Events {
		if e == "CANCEL" {
			cancelAt = i
			break
		}
	}
	if r.Mode == "cancel_before" {
		cancelAt = -1
	} else if cancelAt < 0 {
		return false, nil // the cancellation point was never reached
	}
	// the file being processed at the cancellation instant
	current := ""
	for i := cancelAt; i >= 0 && i < len(out.Events); i-- {
		if strings.HasPrefix(out.Events[i], "extract:") {
			parts := strings.SplitN(out.Events[i], ":", 3)
			current = parts[2]
			break
		}
		if strings.HasPrefix(out.Events[i], "inode:") {
			break
		}
	}
	for _, e := range out.Events[cancelAt+1:] {
		switch {
		case strings.HasPrefix(e, "extract:"):
			parts := strings.SplitN(e, ":", 3)
			if r.Mode != "cancel_extract" || parts[2] != current {
				return true, fmt.Errorf("%v: extraction of %q by %s started after the context was cancelled (events %v)", r, parts[2], parts[1], out.Events)
			}
		case strings.HasPrefix(e, "standalone:"), strings.HasPrefix(e, "detector:"):
			return true, fmt.Errorf("%v: plugin %q ran after the context was cancelled", r, e)
		}
	}
	// did work remain? compare with the uncancelled run's event sequence
	remaining := false
	seenCalls := len(out.Calls)
	if seenCalls < len(base.Calls) {
		remaining = true
	}
	plugins := func(evs []string) int {
		n := 0
		for _, e := range evs {
			if strings.HasPrefix(e, "standalone:") || strings.HasPrefix(e, "detector:") {
				n++
			}
		}
		return n
	}
	// plugins run after the file-system extraction; none may start after the cancellation, so
	// the ones of the uncancelled run that are missing here are work that remained
	if plugins(out.Events) < plugins(base.Events) {
		remaining = true
	}
	if remaining && out.Status != plugin.ScanStatusFailed {
		return true, fmt.Errorf("%v: the context was cancelled with work remaining (%d of %d extractions done, %d standalone extractors, %d detectors) but the status is %v", r, seenCalls, len(base.Calls), c.NStandalone, c.NDetectors, out.Status)
	}
	return remaining, nil
}

func propC10(c c10Case) (ev.Outcome, error) {
	col := ev.Get("C10")
	var o ev.Outcome
	if len(c.Trees) == 0 {
		return o, nil
	}
	scen := fmt.Sprintf("%08x", recext.Hash(fmt.Sprint(c.Trees, c.Cfg, c.Exts, c.NStandalone, c.NDetectors, c.ReadDirFile)))
	base := c.run(c10Run{Mode: "none"})
	if base.Panic != nil {
		return o, fmt.Errorf("unlimited scan panicked: %v", base.Panic)
	}
	if base.Status != plugin.ScanStatusSucceeded {
		return o, fmt.Errorf("unlimited scan failed: %s", base.Reason)
	}
	// The inodes a walk needs are a fact about the trees and the configuration, not about what
	// the scanner chooses to report: the reference walk (the model C01 uses) counts them, and
	// the unlimited scan must have reported exactly those to the stats collector.
	modelN, specials := 0, 0
	for _, tr := range c.Trees {
		modelN += walkmodel.Expected(memfs.New(tr, memfs.Options{ReadDirFile: c.ReadDirFile}), c.Cfg, c.Exts).VisitedInodes
		for _, nd := range tr.Nodes {
			if nd.Kind == memfs.KSpecial {
				specials++
			}
		}
	}
	if modelN != len(base.Inodes) {
		return o, fmt.Errorf("the walk of these trees meets %d inodes (directories, files, links, special files; reference walk) but the unlimited scan counted %d: inodes that are not counted escape the inode limit; counted: %v", modelN, len(base.Inodes), base.Inodes)
	}
	if specials > 0 {
		o.Classes = append(o.Classes, "tree_with_special_files")
	}
	var runs []c10Run
	if len(c.Only) > 0 {
		runs = c.Only
	} else {
		n := len(base.Inodes)
		for _, L := range []int{1, n - 1, n, n + 1} {
			if L >= 1 {
				runs = append(runs, c10Run{Mode: "inodes", Param: L})
			}
		}
		sizes := map[int]bool{}
		for _, tr := range c.Trees {
			for _, nd := range tr.Nodes {
				if nd.Kind == memfs.KFile {
					sizes[len(nd.Content)] = true
				}
			}
		}
		lim := map[int]bool{1: true}
		for s := range sizes {
			for _, d := range []int{-1, 0, 1} {
				if s+d >= 1 {
					lim[s+d] = true
				}
			}
		}
		var ls []int
		for l := range lim {
			ls = append(ls, l)
		}
		sort.Ints(ls)
		for _, l := range ls {
			runs = append(runs, c10Run{Mode: "size", Param: l})
		}
		runs = append(runs, c10Run{Mode: "cancel_before"})
		for k := 0; k < len(base.Calls); k++ {
			runs = append(runs, c10Run{Mode: "cancel_extract", Param: k})
		}
		for j := 1; j <= n; j++ {
			runs = append(runs, c10Run{Mode: "cancel_inode", Param: j})
		}
		for k := 0; k < 2*c.NStandalone; k++ {
			runs = append(runs, c10Run{Mode: "cancel_standalone", Param: k})
		}
		for k := 0; k < 2*c.NDetectors; k++ {
			runs = append(runs, c10Run{Mode: "cancel_detector", Param: k})
		}
		// every cancellation point once more with a context that ends like a deadline
		for _, r := range append([]c10Run(nil), runs...) {
			if strings.HasPrefix(r.Mode, "cancel_") {
				r.Deadline = true
				runs = append(runs, r)
			}
		}
	}
	for _, r := range runs {
		nt, err := c.decide(r, base)
		if len(c.Only) == 0 {
			col.Record(c10Sub{Scenario: scen, Run: r, Case: c10Case{Trees: c.Trees, Cfg: c.Cfg, Exts: c.Exts, NStandalone: c.NStandalone, NDetectors: c.NDetectors, ReadDirFile: c.ReadDirFile, Only: []c10Run{r}}},
				ev.Outcome{NonTrivial: nt, Classes: modeClasses(r), Key: scen + fmt.Sprint(r)}, nil)
		}
		if err != nil {
			return o, err
		}
	}
	o.Classes = append(o.Classes, "scenario", fmt.Sprintf("roots_%d", len(c.Trees)))
	if len(c.Cfg.PathsToExtract) > 0 {
		o.Classes = append(o.Classes, "scenario_listed_paths")
	}
	return o, nil
}

func TestC10_scan(t *testing.T) {
	ev.Check(t, ev.Get("C10"), ev.Scale(150, 1500), genC10, propC10)
}

func modeClasses(r c10Run) []string {
	if r.Deadline {
		return []string{"mode_" + r.Mode, "context_ends_by_deadline"}
	}
	return []string{"mode_" + r.Mode}
}
