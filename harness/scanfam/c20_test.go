package scanfam

// C20 — detectors see all extracted packages and their findings are reported intact.

import (
	"errors"
	"fmt"
	"reflect"
	"sort"
	"testing"

	"github.com/google/osv-scalibr/detector"
	"github.com/google/osv-scalibr/extractor"
	"github.com/google/osv-scalibr/extractor/standalone"
	scalibrfs "github.com/google/osv-scalibr/fs"
	"github.com/google/osv-scalibr/packageindex"
	"github.com/google/osv-scalibr/plugin"
	"pgregory.net/rapid"

	"verifharness/internal/ev"
	"verifharness/internal/memfs"
	"verifharness/internal/recext"
	"verifharness/internal/walkmodel"
)

type c20Finding struct {
	NoAdv bool   `json:"no_adv,omitempty"`
	NoID  bool   `json:"no_id,omitempty"`
	Pub   string `json:"pub"`
	Ref   string `json:"ref"`
	Title string `json:"title"`
	Sev   int    `json:"sev"` // 0 = nil severity
	// V2 / V3: the optional CVSS blocks of the severity (0 absent, 1 and 2 two different blocks);
	// Desc / Rec / Type: the other advisory fields. Two advisories are equal in content iff all
	// of these agree.
	V2    int    `json:"v2,omitempty"`
	V3    int    `json:"v3,omitempty"`
	Desc  string `json:"desc,omitempty"`
	Rec   string `json:"rec,omitempty"`
	Type  int    `json:"type,omitempty"`
	Extra string `json:"extra"`
	// Pretagged: the finding comes back from the detector with its Detectors field already
	// filled in (a finding object that went through an earlier scan, or a detector that fills
	// it itself): the result must still name exactly the detector that returned it.
	Pretagged bool `json:"pretagged,omitempty"`
}

type c20Detector struct {
	Findings []c20Finding `json:"findings"`
	Fail     bool         `json:"fail,omitempty"`
	// SameNameAs k > 0: the detector reports the name of detector k-1 (an earlier one) as its
	// own, e.g. two versions of one detector enabled together. Each still gets a status entry
	// of its own that reflects whether IT failed.
	SameNameAs int `json:"same_name_as,omitempty"`
	// Requires names a built-in extractor the detector declares as required. It is not among
	// the configured extractors: the scan enables it itself, runs it, and its packages are in
	// the index like all others.
	Requires string `json:"requires,omitempty"`
}

// c20Required maps the built-in extractors a generated detector may require to the file
// the tree then holds for it and the package that file declares.
var c20Required = map[string]struct {
	file, content string
	pkg           recext.PkgKey
}{
	"python/requirements": {"requirements.txt", "reqpkg==1.2.3\n", recext.PkgKey{Name: "reqpkg", Version: "1.2.3", Extractor: "python/requirements", Locations: "requirements.txt"}},
	"go/gomod":            {"go.mod", "module example.com/m\n\nrequire example.com/dep v1.4.0\n", recext.PkgKey{Name: "example.com/dep", Version: "1.4.0", Extractor: "go/gomod", Locations: "go.mod"}},
}

func (d c20Detector) name(i int) string {
	if d.SameNameAs > 0 && d.SameNameAs <= i {
		return fmt.Sprintf("fake/det%d", d.SameNameAs-1)
	}
	return fmt.Sprintf("fake/det%d", i)
}

type c20Case struct {
	Tree        memfs.Tree       `json:"tree"`
	Exts        []recext.ExtSpec `json:"exts"`
	NStandalone int              `json:"n_standalone"`
	Detectors   []c20Detector    `json:"detectors"`
}

func genC20(t *rapid.T) c20Case {
	c := c20Case{}
	c.Tree = genTree(t, treeOpts{MaxNodes: 10, MaxDepth: 2})
	c.Exts = genExts(t, c.Tree, 3, rapid.IntRange(0, 3).Draw(t, "name_pool"))
	for i := range c.Exts {
		c.Exts[i].ErrMod = 0
		c.Exts[i].PkgsMod = rapid.IntRange(1, 3).Draw(t, "pkgs")
		c.Exts[i].NoPURLMod = rapid.SampledFrom([]int{0, 0, 1, 2, 3}).Draw(t, "no_purl_mod")
		c.Exts[i].PurlType = rapid.SampledFrom([]string{"", "pypi", "npm", "deb"}).Draw(t, "purl_type")
		c.Exts[i].PurlNS = rapid.SampledFrom([]string{"", "", "debian", "@scope", "org.example", "github.com/a"}).Draw(t, "purl_ns")
		c.Exts[i].PurlNameMode = rapid.SampledFrom([]int{0, 0, 0, 1, 2}).Draw(t, "purl_name_mode")
		c.Exts[i].PurlQual = rapid.IntRange(0, 3).Draw(t, "purl_qual") == 0
		if rapid.Bool().Draw(t, "pred_all") {
			c.Exts[i].Pred = recext.Pred{Kind: "all"}
		}
	}
	c.NStandalone = rapid.IntRange(0, 2).Draw(t, "n_standalone")
	nd := rapid.IntRange(0, 4).Draw(t, "n_detectors")
	for i := 0; i < nd; i++ {
		d := c20Detector{Fail: rapid.IntRange(0, 3).Draw(t, "fail") == 0}
		if i > 0 && rapid.IntRange(0, 4).Draw(t, "same_name") == 0 {
			d.SameNameAs = rapid.IntRange(1, i).Draw(t, "same_name_as")
		}
		if rapid.IntRange(0, 5).Draw(t, "requires") == 0 {
			d.Requires = rapid.SampledFrom([]string{"python/requirements", "go/gomod"}).Draw(t, "required_extractor")
		}
		nf := rapid.IntRange(0, 3).Draw(t, "n_findings")
		for j := 0; j < nf; j++ {
			// advisories of one ID mostly share one body; a third of the findings differ from it in
			// exactly one field (near-equal bodies are where a comparison can go wrong)
			f := c20Finding{
				Pub:   rapid.SampledFrom([]string{"CVE", "CVE", "GHSA"}).Draw(t, "pub"),
				Ref:   rapid.SampledFrom([]string{"A-1", "A-2", "A-3"}).Draw(t, "ref"),
				Title: "t",
				Sev:   3,
				Extra: rapid.SampledFrom([]string{"", "x", "y"}).Draw(t, "extra"),
			}
			if f.Ref == "A-3" {
				f.Sev, f.V3 = 4, 1
			}
			if f.Ref == "A-2" && f.Pub == "GHSA" {
				f.Sev = 0
			}
			switch rapid.IntRange(0, 20).Draw(t, "perturb") {
			case 0:
				f.Title = "u"
			case 1:
				f.Sev = 7 - f.Sev // 3 <-> 4, nil -> 7
			case 2:
				f.Sev = 0
			case 3:
				f.V2 = 1
			case 4:
				// the shared block taken away, or one added where the ID has none
				if f.V3 != 0 {
					f.V3 = 0
				} else {
					f.V3 = 1
				}
			case 5:
				f.V3 = 2
			case 6:
				f.Desc = "d"
			case 7:
				f.Rec = "r"
			case 8:
				f.Type = 1
			case 9:
				f.V2 = 2
			}
			f.Pretagged = rapid.IntRange(0, 5).Draw(t, "pretagged") == 0
			switch rapid.IntRange(0, 14).Draw(t, "broken") {
			case 0:
				f.NoAdv = true
			case 1:
				f.NoID = true
			}
			d.Findings = append(d.Findings, f)
		}
		c.Detectors = append(c.Detectors, d)
	}
	return c
}

func (f c20Finding) build() *detector.Finding {
	out := &detector.Finding{Extra: f.Extra}
	if f.Pretagged {
		out.Detectors = []string{"someone/else", "fake/det0"}
	}
	if f.NoAdv {
		return out
	}
	out.Adv = &detector.Advisory{Title: f.Title, Type: detector.TypeVulnerability, Description: f.Desc, Recommendation: f.Rec}
	if f.Type == 1 {
		out.Adv.Type = detector.TypeCISFinding
	}
	cvss := func(k int) *detector.CVSS {
		switch k {
		case 1:
			return &detector.CVSS{BaseScore: 7.5}
		case 2:
			return &detector.CVSS{BaseScore: 7.5, TemporalScore: 1}
		}
		return nil
	}
	if f.Sev > 0 {
		out.Adv.Sev = &detector.Severity{Severity: detector.SeverityEnum(f.Sev), CVSSV2: cvss(f.V2), CVSSV3: cvss(f.V3)}
	}
	if !f.NoID {
		out.Adv.ID = &detector.AdvisoryID{Publisher: f.Pub, Reference: f.Ref}
	}
	return out
}

func propC20(c c20Case) (ev.Outcome, error) {
	var o ev.Outcome
	rec := &recext.Recorder{}
	type seen struct {
		all      []*extractor.Package
		px       *packageindex.PackageIndex
		rootSame bool
	}
	tree := c.Tree
	requiredNames := map[string]bool{}
	for _, d := range c.Detectors {
		if rq, ok := c20Required[d.Requires]; ok && !requiredNames[d.Requires] {
			requiredNames[d.Requires] = true
			has := false
			for _, n := range tree.Nodes {
				has = has || n.Path == rq.file
			}
			if !has {
				tree = memfs.Tree{Nodes: append(append([]memfs.Node(nil), tree.Nodes...), memfs.Node{Path: rq.file, Kind: memfs.KFile, Content: rq.content})}.Normalize()
			}
		}
	}
	mfs := memfs.New(tree, memfs.Options{ReadDirFile: true})
	roots := []*scalibrfs.ScanRoot{{FS: mfs, Path: ""}}
	sawIdx := make([]*seen, len(c.Detectors))
	returned := make([][]*detector.Finding, len(c.Detectors))
	dets := make([]*recext.Detector, len(c.Detectors))
	ex := &scanExtras{Rec: rec}
	for i := 0; i < c.NStandalone; i++ {
		ex.Standalone = append(ex.Standalone, standalone.Extractor(&recext.SAExtractor{N: fmt.Sprintf("fake/sa%d", i), Rec: rec, Pkgs: 2}))
	}
	for i, d := range c.Detectors {
		i, d := i, d
		det := &recext.Detector{N: d.name(i), Rec: rec}
		if d.Requires != "" {
			det.Req = []string{d.Requires}
		}
		det.Seen = func(root *scalibrfs.ScanRoot, px *packageindex.PackageIndex) {
			sawIdx[i] = &seen{all: px.GetAll(), px: px, rootSame: root != nil && root.FS == scalibrfs.FS(mfs)}
		}
		det.Findings = func() []*detector.Finding {
			var fs []*detector.Finding
			for _, f := range d.Findings {
				fs = append(fs, f.build())
			}
			returned[i] = fs
			return fs
		}
		if d.Fail {
			det.Err = errors.New("generated detector failure")
		}
		dets[i] = det
		ex.Detectors = append(ex.Detectors, detector.Detector(det))
	}
	out := runScan(roots, walkmodel.Config{}, c.Exts, ex)
	if out.Panic != nil {
		return o, fmt.Errorf("scan panicked: %v", out.Panic)
	}
	res := out.Result
	// the packages extracted in this scan that have a package URL
	withPurl := map[*extractor.Package]bool{}
	nNoPurl := 0
	nsSeen, nameDiffers := false, false
	for _, p := range res.Inventory.Packages {
		if p.Extractor != nil && p.Extractor.ToPURL(p) != nil {
			withPurl[p] = true
		} else {
			nNoPurl++
		}
	}
	// the extracted inventory is what the calls returned (cross-check with C01's relation)
	want := expectedPkgsFromCalls(out.Calls, c.Exts, "", false)
	for i := 0; i < c.NStandalone; i++ {
		for j := 0; j < 2; j++ {
			want = append(want, recext.PkgKey{Name: fmt.Sprintf("fake/sa%d-sa%d", i, j), Version: "1", Extractor: fmt.Sprintf("fake/sa%d", i), Locations: "standalone"})
		}
	}
	for name := range requiredNames {
		// the extractor a detector requires was enabled by the scan and ran
		want = append(want, c20Required[name].pkg)
		n := 0
		for _, st := range out.Statuses {
			if st.Name == name {
				n++
				if st.Status != plugin.ScanStatusSucceeded {
					return o, fmt.Errorf("extractor %s, required by a detector and enabled by the scan, has status %v", name, st.Status)
				}
			}
		}
		if n != 1 {
			return o, fmt.Errorf("extractor %s is required by a detector but has %d status entries in the result: the scan did not run it", name, n)
		}
		o.Classes = append(o.Classes, "detector_requires_extractor_not_configured")
	}
	if d := diffPkgs(out.Packages, want); d != "" {
		return o, fmt.Errorf("inventory differs from what the extractors returned: %s", d)
	}
	for i, det := range dets {
		if det.Runs != 1 {
			return o, fmt.Errorf("detector %s ran %d times, want exactly once", det.N, det.Runs)
		}
		s := sawIdx[i]
		if s == nil || !s.rootSame {
			return o, fmt.Errorf("detector %s did not receive the scan root", det.N)
		}
		got := map[*extractor.Package]int{}
		for _, p := range s.all {
			got[p]++
		}
		for p := range withPurl {
			if got[p] != 1 {
				return o, fmt.Errorf("detector %s: package %s@%s (has a purl) appears %d times in the index's GetAll", det.N, p.Name, p.Version, got[p])
			}
			u := p.Extractor.ToPURL(p)
			found := 0
			for _, q := range s.px.GetSpecific(u.Name, u.Type) {
				if q == p {
					found++
				}
				if qu := q.Extractor.ToPURL(q); qu == nil || qu.Name != u.Name || qu.Type != u.Type {
					return o, fmt.Errorf("detector %s: GetSpecific(%q, %q) returns package %s@%s whose purl is %v", det.N, u.Name, u.Type, q.Name, q.Version, qu)
				}
			}
			if u.Namespace != "" {
				nsSeen = true
			}
			if u.Name != p.Name {
				nameDiffers = true
			}
			if found != 1 {
				return o, fmt.Errorf("detector %s: GetSpecific(%q, %q) returns package %s@%s %d times", det.N, u.Name, u.Type, p.Name, p.Version, found)
			}
			found = 0
			for _, q := range s.px.GetAllOfType(u.Type) {
				if q == p {
					found++
				}
				if qu := q.Extractor.ToPURL(q); qu == nil || qu.Type != u.Type {
					return o, fmt.Errorf("detector %s: GetAllOfType(%q) returns package %s@%s whose purl is %v", det.N, u.Type, q.Name, q.Version, qu)
				}
			}
			// a type or a name that no extracted package has selects nothing
			if r := s.px.GetSpecific(u.Name, "absent-type"); len(r) != 0 {
				return o, fmt.Errorf("detector %s: GetSpecific(%q, absent-type) returns %d packages", det.N, u.Name, len(r))
			}
			if r := s.px.GetSpecific(u.Name+"/absent", u.Type); len(r) != 0 {
				return o, fmt.Errorf("detector %s: GetSpecific(%q, %q) returns %d packages", det.N, u.Name+"/absent", u.Type, len(r))
			}
			if found != 1 {
				return o, fmt.Errorf("detector %s: GetAllOfType(%q) returns package %s@%s %d times", det.N, u.Type, p.Name, p.Version, found)
			}
		}
		for p := range got {
			if !withPurl[p] {
				return o, fmt.Errorf("detector %s: the index holds %s@%s which is not an extracted package with a purl", det.N, p.Name, p.Version)
			}
		}
		// status entries: one per detector; those of detectors sharing a name are told apart
		// only by what they say, so the entries under a name are compared as a multiset
		var gotSt, wantSt []int
		for _, st := range out.Statuses {
			if st.Name == det.N {
				gotSt = append(gotSt, int(st.Status))
			}
		}
		shared := 0
		for j, dj := range c.Detectors {
			if dj.name(j) == det.N {
				shared++
				w := plugin.ScanStatusSucceeded
				if dj.Fail {
					w = plugin.ScanStatusFailed
				}
				wantSt = append(wantSt, int(w))
			}
		}
		sort.Ints(gotSt)
		sort.Ints(wantSt)
		if shared > 1 {
			o.Classes = append(o.Classes, "detectors_share_a_name")
			if wantSt[0] != wantSt[len(wantSt)-1] {
				o.Classes = append(o.Classes, "detectors_share_a_name_outcomes_differ")
			}
		}
		if fmt.Sprint(gotSt) != fmt.Sprint(wantSt) {
			return o, fmt.Errorf("the %d detector(s) named %s have status entries %v, want %v (one per detector, failed = %d, succeeded = %d)", shared, det.N, gotSt, wantSt, plugin.ScanStatusFailed, plugin.ScanStatusSucceeded)
		}
	}
	// advisory consistency (model)
	valid := true
	type body struct {
		title, desc, rec string
		sev, v2, v3, typ int
	}
	ids := map[[2]string]body{}
	nFind := 0
	collision := false
	for _, d := range c.Detectors {
		for _, f := range d.Findings {
			nFind++
			if f.NoAdv || f.NoID {
				valid = false
				o.Classes = append(o.Classes, "missing_advisory_or_id")
				continue
			}
			k := [2]string{f.Pub, f.Ref}
			b := body{f.Title, f.Desc, f.Rec, f.Sev, f.V2, f.V3, f.Type}
			if f.Sev == 0 {
				b.v2, b.v3 = 0, 0 // the CVSS blocks live inside the severity
			}
			if prev, ok := ids[k]; ok {
				collision = true
				if prev != b {
					valid = false
					o.Classes = append(o.Classes, "id_collision_unequal")
				}
			}
			ids[k] = b
		}
	}
	if collision && valid {
		o.Classes = append(o.Classes, "id_collision_equal")
	}
	got := map[*detector.Finding]int{}
	for _, f := range res.Inventory.Findings {
		got[f]++
	}
	if !valid {
		if out.Status != plugin.ScanStatusFailed {
			return o, fmt.Errorf("inconsistent advisories (missing advisory/id or same id with different content) but the scan status is %v", out.Status)
		}
		if len(res.Inventory.Findings) != 0 {
			return o, fmt.Errorf("inconsistent advisories but %d findings were emitted", len(res.Inventory.Findings))
		}
	} else {
		if out.Status != plugin.ScanStatusSucceeded {
			return o, fmt.Errorf("consistent findings but the scan failed: %s", out.Reason)
		}
		total := 0
		for i, fs := range returned {
			for _, f := range fs {
				total++
				if got[f] != 1 {
					return o, fmt.Errorf("a finding returned by %s appears %d times in the result", dets[i].N, got[f])
				}
				if !reflect.DeepEqual(f.Detectors, []string{dets[i].N}) {
					return o, fmt.Errorf("finding returned by %s is tagged %v", dets[i].N, f.Detectors)
				}
			}
		}
		if total != len(res.Inventory.Findings) {
			return o, fmt.Errorf("%d findings returned by detectors, %d in the result", total, len(res.Inventory.Findings))
		}
		if err := checkSorted(out); err != nil {
			return o, err
		}
	}
	for _, d := range c.Detectors {
		if d.Fail && len(d.Findings) > 0 {
			o.Classes = append(o.Classes, "detector_error_with_findings")
		}
		for _, f := range d.Findings {
			if f.Pretagged {
				o.Classes = append(o.Classes, "finding_returned_with_detectors_filled_in")
			}
		}
	}
	if nsSeen {
		o.Classes = append(o.Classes, "purl_with_namespace")
	}
	if nameDiffers {
		o.Classes = append(o.Classes, "purl_name_differs_from_package_name")
	}
	if nNoPurl > 0 {
		o.Classes = append(o.Classes, "packages_without_purl")
	}
	if len(c.Detectors) == 0 {
		o.Classes = append(o.Classes, "no_detectors")
	}
	o.NonTrivial = len(c.Detectors) >= 2 && nFind >= 2
	return o, nil
}

func TestC20(t *testing.T) {
	ev.Check(t, ev.Get("C20"), ev.Scale(3000, 10000), genC20, propC20)
}
