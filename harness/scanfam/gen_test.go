package scanfam

// Shared generators for the scan-engine properties (C01, C08, C09, C10, C20): trees,
// scan configurations and fake-extractor specifications. Every random choice is a rapid
// draw, so cases shrink and replay.

import (
	"fmt"
	"path"
	"regexp"
	"sort"
	"strings"

	"pgregory.net/rapid"

	"verifharness/internal/memfs"
	"verifharness/internal/recext"
	"verifharness/internal/walkmodel"
)

var dirPool = []string{"a", "b", "c", "src", ".git", "sp ace", "-d", "a.b", "node_modules", "+x"}
var filePool = []string{"x.txt", "y.lock", "pkg.json", ".hidden", "-dash", "f g", "a.b.c", "noext", "run.sh", "z.txt", "b"}

type treeOpts struct {
	MaxNodes   int
	MaxDepth   int
	Gitignore  bool // may generate .gitignore files
	Symlinks   bool
	Special    bool
	MinFiles   int
	ExtraNames []string
}

func relPath(fromDir, to string) string {
	if fromDir == "." {
		return to
	}
	f := strings.Split(fromDir, "/")
	t := strings.Split(to, "/")
	i := 0
	for i < len(f) && i < len(t) && f[i] == t[i] {
		i++
	}
	var out []string
	for j := i; j < len(f); j++ {
		out = append(out, "..")
	}
	out = append(out, t[i:]...)
	if len(out) == 0 {
		return "."
	}
	return strings.Join(out, "/")
}

// genTree draws a tree. It records the names it used so that patterns can hit them.
func genTree(t *rapid.T, o treeOpts) memfs.Tree {
	var nodes []memfs.Node
	budget := o.MaxNodes
	var dirs []string
	var files []string
	var build func(d string, depth int)
	build = func(d string, depth int) {
		if budget <= 0 {
			return
		}
		nKids := rapid.IntRange(0, 5).Draw(t, "kids:"+d)
		if d == "." && nKids < 2 {
			nKids = 2
		}
		used := map[string]bool{}
		for i := 0; i < nKids && budget > 0; i++ {
			kind := rapid.SampledFrom([]string{"dir", "dir", "file", "file", "file", "file", "symlink", "special", "gitignore"}).Draw(t, "kind")
			if kind == "dir" && depth >= o.MaxDepth {
				kind = "file"
			}
			if kind == "symlink" && !o.Symlinks {
				kind = "file"
			}
			if kind == "special" && !o.Special {
				kind = "file"
			}
			if kind == "gitignore" && !o.Gitignore {
				kind = "dir"
				if depth >= o.MaxDepth {
					kind = "file"
				}
			}
			var name string
			switch kind {
			case "dir":
				name = rapid.SampledFrom(dirPool).Draw(t, "dname")
			case "gitignore":
				name = ".gitignore"
			default:
				name = rapid.SampledFrom(filePool).Draw(t, "fname")
			}
			if used[name] {
				continue
			}
			used[name] = true
			p := name
			if d != "." {
				p = d + "/" + name
			}
			budget--
			switch kind {
			case "dir":
				nodes = append(nodes, memfs.Node{Path: p, Kind: memfs.KDir})
				dirs = append(dirs, p)
				build(p, depth+1)
			case "file":
				size := rapid.IntRange(0, 64).Draw(t, "size")
				mode := uint32(0)
				if rapid.IntRange(0, 3).Draw(t, "exec") == 0 {
					mode = 0o755
				}
				nodes = append(nodes, memfs.Node{Path: p, Kind: memfs.KFile, Content: strings.Repeat("x", size), Mode: mode})
				files = append(files, p)
			case "special":
				nodes = append(nodes, memfs.Node{Path: p, Kind: memfs.KSpecial})
			case "symlink":
				nodes = append(nodes, memfs.Node{Path: p, Kind: memfs.KSymlink, Target: "\x00"}) // target chosen below
			case "gitignore":
				nodes = append(nodes, memfs.Node{Path: p, Kind: memfs.KFile, Content: "\x00"})
			}
		}
	}
	build(".", 1)
	// Choose symlink targets and .gitignore contents now that all names are known.
	for i := range nodes {
		n := &nodes[i]
		if n.Kind == memfs.KSymlink {
			choice := rapid.SampledFrom([]string{"file", "file", "dir", "dangling", "abs", "self"}).Draw(t, "tgtkind")
			ldir := path.Dir(n.Path)
			switch {
			case choice == "file" && len(files) > 0:
				n.Target = relPath(ldir, rapid.SampledFrom(files).Draw(t, "tgt"))
			case choice == "dir" && len(dirs) > 0:
				n.Target = relPath(ldir, rapid.SampledFrom(dirs).Draw(t, "tgt"))
			case choice == "abs" && len(files) > 0:
				n.Target = "/" + rapid.SampledFrom(files).Draw(t, "tgt")
			case choice == "self":
				n.Target = path.Base(n.Path)
			default:
				n.Target = "missing-target"
			}
		}
		if n.Kind == memfs.KFile && n.Content == "\x00" {
			n.Content = genGitignore(t, path.Dir(n.Path), dirs, files)
		}
	}
	return memfs.Tree{Nodes: nodes}.Normalize()
}

// genGitignore draws .gitignore content from the sub-language on which git's semantics
// are unambiguous: literal names, "*.ext", "name/", "/anchored", "a/b"; comments and
// blank lines. No negation, no "**", no character classes, no escapes.
func genGitignore(t *rapid.T, dir string, dirs, files []string) string {
	n := rapid.IntRange(1, 4).Draw(t, "gi_lines")
	var lines []string
	// names of entries below dir make patterns likely to hit
	var below []string
	for _, p := range append(append([]string{}, dirs...), files...) {
		if dir == "." || strings.HasPrefix(p, dir+"/") {
			below = append(below, p)
		}
	}
	sort.Strings(below)
	for i := 0; i < n; i++ {
		kind := rapid.SampledFrom([]string{"name", "name", "ext", "dironly", "anchored", "twolevel", "comment", "blank", "nomatch"}).Draw(t, "gi_kind")
		var target string
		if len(below) > 0 {
			target = rapid.SampledFrom(below).Draw(t, "gi_target")
		} else {
			target = joinp(dir, rapid.SampledFrom(filePool).Draw(t, "gi_target2"))
		}
		rel := strings.TrimPrefix(target, dir+"/")
		if dir == "." {
			rel = target
		}
		comps := strings.Split(rel, "/")
		base := comps[len(comps)-1]
		switch kind {
		case "name":
			lines = append(lines, rapid.SampledFrom(comps).Draw(t, "gi_comp"))
		case "ext":
			if e := path.Ext(base); e != "" && e != base {
				lines = append(lines, "*"+e)
			} else {
				lines = append(lines, base)
			}
		case "dironly":
			lines = append(lines, rapid.SampledFrom(comps).Draw(t, "gi_comp")+"/")
		case "anchored":
			lines = append(lines, "/"+comps[0])
		case "twolevel":
			if len(comps) >= 2 {
				lines = append(lines, comps[0]+"/"+comps[1])
			} else {
				lines = append(lines, "/"+comps[0])
			}
		case "comment":
			lines = append(lines, "# "+base)
		case "blank":
			lines = append(lines, "")
		case "nomatch":
			lines = append(lines, "zzz-nomatch")
		}
	}
	// a pattern beginning with '#' or '!' would change meaning; the pools have no such names.
	s := strings.Join(lines, "\n")
	if rapid.Bool().Draw(t, "gi_trailing_nl") {
		s += "\n"
	}
	return s
}

func joinp(d, b string) string {
	if d == "." {
		return b
	}
	return d + "/" + b
}

func treeDirs(tr memfs.Tree) []string {
	var out []string
	for _, n := range tr.Nodes {
		if n.Kind == memfs.KDir {
			out = append(out, n.Path)
		}
	}
	return out
}

func treeFiles(tr memfs.Tree) []string {
	var out []string
	for _, n := range tr.Nodes {
		if n.Kind == memfs.KFile {
			out = append(out, n.Path)
		}
	}
	return out
}

// genExts draws 1..max fake extractor specifications.
func genExts(t *rapid.T, tr memfs.Tree, max int, namePool int) []recext.ExtSpec {
	n := rapid.IntRange(1, max).Draw(t, "n_exts")
	dirs := treeDirs(tr)
	var out []recext.ExtSpec
	for i := 0; i < n; i++ {
		kind := rapid.SampledFrom([]string{"all", "base", "ext", "ext", "prefix", "hash", "exec"}).Draw(t, "pred")
		p := recext.Pred{Kind: kind}
		switch kind {
		case "base":
			p.Arg = rapid.SampledFrom(filePool).Draw(t, "pred_base")
		case "ext":
			p.Arg = rapid.SampledFrom([]string{".txt", ".lock", ".json", ".sh", ""}).Draw(t, "pred_ext")
		case "prefix":
			if len(dirs) > 0 {
				p.Arg = rapid.SampledFrom(dirs).Draw(t, "pred_prefix") + "/"
			} else {
				p.Kind = "all"
			}
		case "hash":
			p.K = rapid.IntRange(2, 3).Draw(t, "pred_k")
		}
		s := recext.ExtSpec{
			Name:     fmt.Sprintf("fake/ex%d", i),
			Pred:     p,
			PkgsMod:  rapid.IntRange(0, 2).Draw(t, "pkgs_mod"),
			NamePool: namePool,
		}
		s.PrefixNames = rapid.IntRange(0, 3).Draw(t, "prefix_names") == 0
		if rapid.IntRange(0, 3).Draw(t, "has_err") == 0 {
			s.ErrMod = 3
		}
		out = append(out, s)
	}
	return out
}

type cfgOpts struct {
	AllowPaths bool
	AllowSize  bool
}

// genConfig draws a scan configuration whose rules are built to hit the tree.
func genConfig(t *rapid.T, tr memfs.Tree, o cfgOpts) walkmodel.Config {
	dirs := treeDirs(tr)
	files := treeFiles(tr)
	cfg := walkmodel.Config{}
	// symlinks whose target is a directory: a path that looks like a directory to a user
	var dirLinks []string
	if mf := memfs.New(tr, memfs.Options{}); true {
		for _, n := range tr.Nodes {
			if n.Kind == memfs.KSymlink {
				if _, tn, err := mf.Lookup(n.Path, true); err == nil && tn.Kind == memfs.KDir {
					dirLinks = append(dirLinks, n.Path)
				}
			}
		}
	}
	pickDir := func(label string) string {
		if len(dirLinks) > 0 && rapid.Bool().Draw(t, label+"_link") {
			return rapid.SampledFrom(dirLinks).Draw(t, label+"_l")
		}
		if len(dirs) == 0 {
			return "nodir"
		}
		return rapid.SampledFrom(dirs).Draw(t, label)
	}
	// skip list
	if rapid.IntRange(0, 2).Draw(t, "use_skiplist") == 0 {
		n := rapid.IntRange(1, 2).Draw(t, "n_skip")
		for i := 0; i < n; i++ {
			switch rapid.IntRange(0, 9).Draw(t, "skip_kind") {
			case 0:
				cfg.DirsToSkip = append(cfg.DirsToSkip, "no/such/dir")
			case 1:
				cfg.DirsToSkip = append(cfg.DirsToSkip, ".")
			default:
				cfg.DirsToSkip = append(cfg.DirsToSkip, pickDir("skip_dir"))
			}
		}
	}
	// regex
	if rapid.IntRange(0, 2).Draw(t, "use_regex") == 0 {
		d := pickDir("re_dir")
		switch rapid.IntRange(0, 5).Draw(t, "re_kind") {
		case 0:
			cfg.Regex = "^" + regexp.QuoteMeta(d) + "$"
		case 1:
			cfg.Regex = "(^|/)" + regexp.QuoteMeta(path.Base(d)) + "$"
		case 2:
			cfg.Regex = regexp.QuoteMeta(path.Base(d))
		case 3:
			cfg.Regex = "^zzz-nomatch$"
		case 4:
			cfg.Regex = "^" + regexp.QuoteMeta(d) + "/"
		case 5:
			cfg.Regex = "^\\.$"
		}
	}
	// glob
	if rapid.IntRange(0, 2).Draw(t, "use_glob") == 0 {
		d := pickDir("gl_dir")
		switch rapid.IntRange(0, 5).Draw(t, "gl_kind") {
		case 0:
			cfg.Glob = d
		case 1:
			cfg.Glob = "**/" + path.Base(d)
		case 2:
			cfg.Glob = "*" + path.Base(d)
		case 3:
			cfg.Glob = "zzz-nomatch"
		case 4:
			cfg.Glob = d + "/*"
		case 5:
			cfg.Glob = path.Base(d)
		}
	}
	cfg.UseGitignore = rapid.Bool().Draw(t, "use_gitignore")
	cfg.ReadSymlinks = rapid.Bool().Draw(t, "read_symlinks")
	if o.AllowPaths && rapid.IntRange(0, 1).Draw(t, "use_paths") == 0 {
		n := rapid.IntRange(1, 3).Draw(t, "n_paths")
		for i := 0; i < n; i++ {
			switch rapid.IntRange(0, 9).Draw(t, "path_kind") {
			case 0:
				cfg.PathsToExtract = append(cfg.PathsToExtract, "no/such/path")
			case 1:
				cfg.PathsToExtract = append(cfg.PathsToExtract, ".")
			case 2, 3, 4:
				if len(files) > 0 {
					cfg.PathsToExtract = append(cfg.PathsToExtract, rapid.SampledFrom(files).Draw(t, "path_file"))
				}
			default:
				cfg.PathsToExtract = append(cfg.PathsToExtract, pickDir("path_dir"))
			}
		}
		if len(cfg.PathsToExtract) > 0 && rapid.IntRange(0, 3).Draw(t, "root_too") == 0 {
			// the scan root itself next to paths below it (their order as strings differs
			// between the absolute and the root-relative spelling for names that sort before ".")
			cfg.PathsToExtract = append(cfg.PathsToExtract, ".")
		}
		if len(cfg.PathsToExtract) > 0 {
			cfg.IgnoreSubDirs = rapid.IntRange(0, 1).Draw(t, "ignore_subdirs") == 0
		}
	}
	if o.AllowSize && rapid.IntRange(0, 2).Draw(t, "use_size") == 0 && len(files) > 0 {
		f := rapid.SampledFrom(files).Draw(t, "size_file")
		var sz int
		for _, n := range tr.Nodes {
			if n.Path == f {
				sz = len(n.Content)
			}
		}
		cfg.MaxFileSize = sz + rapid.IntRange(-1, 1).Draw(t, "size_delta")
		if cfg.MaxFileSize < 1 {
			cfg.MaxFileSize = 1
		}
	}
	cfg.StoreAbsolutePath = rapid.IntRange(0, 3).Draw(t, "abs") == 0
	return cfg
}

// genOrder draws a listing-order permutation for every directory of the tree.
func genOrder(t *rapid.T, tr memfs.Tree, label string) map[string][]string {
	kids := map[string][]string{}
	for _, n := range tr.Nodes {
		d := path.Dir(n.Path)
		kids[d] = append(kids[d], path.Base(n.Path))
	}
	ds := make([]string, 0, len(kids))
	for d := range kids {
		ds = append(ds, d)
	}
	sort.Strings(ds)
	out := map[string][]string{}
	for _, d := range ds {
		ks := kids[d]
		sort.Strings(ks)
		if len(ks) > 1 {
			out[d] = rapid.Permutation(ks).Draw(t, label+":"+d)
		}
	}
	return out
}
