package scanfam

import (
	"context"
	"fmt"
	"regexp"
	"runtime/debug"
	"sort"
	"strings"

	"github.com/gobwas/glob"
	scalibr "github.com/google/osv-scalibr"
	"github.com/google/osv-scalibr/detector"
	"github.com/google/osv-scalibr/extractor/filesystem"
	"github.com/google/osv-scalibr/extractor/standalone"
	scalibrfs "github.com/google/osv-scalibr/fs"
	"github.com/google/osv-scalibr/plugin"

	"verifharness/internal/ev"
	"verifharness/internal/memfs"
	"verifharness/internal/recext"
	"verifharness/internal/walkmodel"
)

// scanOut is everything observable of one scan.
type scanOut struct {
	Calls      []recext.Call
	Events     []string
	Packages   []recext.PkgKey // in emitted order
	Statuses   []statusKey     // in emitted order
	Status     plugin.ScanStatusEnum
	Reason     string
	Inodes     []string
	ExtRuns    []string
	Ops        []memfs.Op
	Result     *scalibr.ScanResult
	Panic      any
	AfterScans int
}

type statusKey struct {
	Name   string
	Status plugin.ScanStatusEnum
}

type scanExtras struct {
	Standalone []standalone.Extractor
	Detectors  []detector.Detector
	Ctx        context.Context
	Rec        *recext.Recorder
	ExtraRoots []*scalibrfs.ScanRoot
}

func toScanConfig(cfg walkmodel.Config) *scalibr.ScanConfig {
	sc := &scalibr.ScanConfig{
		DirsToSkip:        append([]string(nil), cfg.DirsToSkip...),
		UseGitignore:      cfg.UseGitignore,
		PathsToExtract:    append([]string(nil), cfg.PathsToExtract...),
		IgnoreSubDirs:     cfg.IgnoreSubDirs,
		MaxFileSize:       cfg.MaxFileSize,
		ReadSymlinks:      cfg.ReadSymlinks,
		StoreAbsolutePath: cfg.StoreAbsolutePath,
		MaxInodes:         cfg.MaxInodes,
		ErrorOnFSErrors:   cfg.ErrorOnFSErrors,
		Capabilities:      &plugin.Capabilities{OS: plugin.OSLinux, Network: plugin.NetworkOffline},
	}
	if cfg.Regex != "" {
		sc.SkipDirRegex = regexp.MustCompile(cfg.Regex)
	}
	if cfg.Glob != "" {
		sc.SkipDirGlob = glob.MustCompile(cfg.Glob)
	}
	return sc
}

// runScan runs Scanner.Scan over roots with fake extractors built from specs.
func runScan(roots []*scalibrfs.ScanRoot, cfg walkmodel.Config, specs []recext.ExtSpec, ex *scanExtras) (out scanOut) {
	rec := &recext.Recorder{}
	if ex != nil && ex.Rec != nil {
		rec = ex.Rec
	}
	st := &recext.Stats{Rec: rec}
	sc := toScanConfig(cfg)
	sc.ScanRoots = roots
	sc.Stats = st
	for i := range specs {
		sc.FilesystemExtractors = append(sc.FilesystemExtractors, filesystem.Extractor(&recext.FSExtractor{Spec: specs[i], Rec: rec}))
	}
	ctx := context.Background()
	if ex != nil {
		sc.StandaloneExtractors = ex.Standalone
		sc.Detectors = ex.Detectors
		if ex.Ctx != nil {
			ctx = ex.Ctx
		}
	}
	func() {
		defer func() {
			if r := recover(); r != nil {
				out.Panic = fmt.Sprintf("%v\n%s", r, ev.TrimStack(debug.Stack()))
			}
		}()
		out.Result = scalibr.New().Scan(ctx, sc)
	}()
	out.Calls, out.Events = rec.Snapshot()
	out.Inodes = append([]string(nil), st.Inodes...)
	out.ExtRuns = append([]string(nil), st.ExtRuns...)
	out.AfterScans = len(st.ScanStatus)
	for _, r := range roots {
		if m, ok := r.FS.(*memfs.FS); ok {
			out.Ops = append(out.Ops, m.Log()...)
		}
	}
	if out.Result != nil {
		if out.Result.Status != nil {
			out.Status = out.Result.Status.Status
			out.Reason = out.Result.Status.FailureReason
		}
		for _, p := range out.Result.Inventory.Packages {
			en := "<nil>"
			if p.Extractor != nil {
				en = p.Extractor.Name()
			}
			out.Packages = append(out.Packages, recext.PkgKey{Name: p.Name, Version: p.Version, Extractor: en, Locations: strings.Join(p.Locations, "\x1f")})
		}
		for _, s := range out.Result.PluginStatus {
			k := statusKey{Name: s.Name}
			if s.Status != nil {
				k.Status = s.Status.Status
			}
			out.Statuses = append(out.Statuses, k)
		}
	}
	return out
}

func virtualRoot(f *memfs.FS) []*scalibrfs.ScanRoot {
	return []*scalibrfs.ScanRoot{{FS: f, Path: ""}}
}

func sortedCalls(cs []recext.Call) []walkmodel.Extraction {
	out := make([]walkmodel.Extraction, 0, len(cs))
	for _, c := range cs {
		out = append(out, walkmodel.Extraction{Ext: c.Extractor, Path: c.Path})
	}
	sort.Slice(out, func(i, j int) bool {
		if out[i].Path != out[j].Path {
			return out[i].Path < out[j].Path
		}
		return out[i].Ext < out[j].Ext
	})
	return out
}

func sortedPkgs(ps []recext.PkgKey) []recext.PkgKey {
	out := append([]recext.PkgKey(nil), ps...)
	sort.Slice(out, func(i, j int) bool { return fmt.Sprint(out[i]) < fmt.Sprint(out[j]) })
	return out
}

func diffCalls(got, want []walkmodel.Extraction) string {
	cnt := map[walkmodel.Extraction]int{}
	for _, g := range got {
		cnt[g]++
	}
	for _, w := range want {
		cnt[w]--
	}
	var extra, missing []string
	for k, v := range cnt {
		for ; v > 0; v-- {
			extra = append(extra, k.Ext+"@"+k.Path)
		}
		for ; v < 0; v++ {
			missing = append(missing, k.Ext+"@"+k.Path)
		}
	}
	sort.Strings(extra)
	sort.Strings(missing)
	if len(extra) == 0 && len(missing) == 0 {
		return ""
	}
	return fmt.Sprintf("unexpected Extract calls %q, missing Extract calls %q", extra, missing)
}

func diffPkgs(got, want []recext.PkgKey) string {
	cnt := map[recext.PkgKey]int{}
	for _, g := range got {
		cnt[g]++
	}
	for _, w := range want {
		cnt[w]--
	}
	var extra, missing []string
	for k, v := range cnt {
		for ; v > 0; v-- {
			extra = append(extra, fmt.Sprintf("%s@%s by %s at %q", k.Name, k.Version, k.Extractor, k.Locations))
		}
		for ; v < 0; v++ {
			missing = append(missing, fmt.Sprintf("%s@%s by %s at %q", k.Name, k.Version, k.Extractor, k.Locations))
		}
	}
	sort.Strings(extra)
	sort.Strings(missing)
	if len(extra) == 0 && len(missing) == 0 {
		return ""
	}
	return fmt.Sprintf("unexpected packages %q, missing packages %q", extra, missing)
}

func specByName(specs []recext.ExtSpec) map[string]recext.ExtSpec {
	m := map[string]recext.ExtSpec{}
	for _, s := range specs {
		m[s.Name] = s
	}
	return m
}

// expectedPkgsFromCalls is the multiset union of what the recorded calls returned.
func expectedPkgsFromCalls(calls []recext.Call, specs []recext.ExtSpec, absRoot string, storeAbs bool) []recext.PkgKey {
	by := specByName(specs)
	var out []recext.PkgKey
	for _, c := range calls {
		if c.ReadErr != "" {
			continue
		}
		for _, k := range by[c.Extractor].ExpectedPackages(c.Path) {
			if storeAbs && absRoot != "" {
				k.Locations = absRoot + "/" + k.Locations
			}
			out = append(out, k)
		}
	}
	return out
}
