package semverfam

// C07 — ecosystem version comparison is total, consistent and a valid ordering.
//
// Three legs over one case type (the Kind field selects the oracle, so every leg can
// replay every witness):
//
//	pair    arbitrary strings: no panic; when both are accepted, cmp(a,b) = -cmp(b,a),
//	        cmp(a,a) = 0, results in {-1,0,1}
//	triple  grammar-valid versions: acceptance, the pair laws, transitivity of <= and
//	        congruence of == (a == b  =>  cmp(a,c) == cmp(b,c))
//	canon   canonical versions: agreement with independent reference comparators
//
// Grammars, generators, recognisers and references live in internal/vergram.

import (
	"fmt"
	"regexp"
	"strings"
	"testing"

	"github.com/google/osv-scalibr/semantic"
	"pgregory.net/rapid"

	"verifharness/internal/ev"
	"verifharness/internal/vergram"
)

type c07Case struct {
	Kind string `json:"kind"` // pair | triple | canon
	Eco  string `json:"eco"`
	A    string `json:"a"`
	B    string `json:"b"`
	C    string `json:"c,omitempty"`
}

// ---- known-finding classes (narrow predicates over the case; see KNOWN_FINDINGS.txt) ----

var cranIntegerComponent = regexp.MustCompile(`^\+?[0-9]+$`)

// cranBadComponents: CRAN strings with a component that is not a decimal integer
// (parseCRANVersion stores a nil *big.Int for it and compare dereferences it).
func cranNonNumeric(s string) bool {
	for _, p := range strings.Split(strings.ReplaceAll(s, "-", "."), ".") {
		if !cranIntegerComponent.MatchString(p) {
			return true
		}
	}
	return false
}

func cranRepair(s string) string {
	parts := strings.Split(strings.ReplaceAll(s, "-", "."), ".")
	for i, p := range parts {
		if !cranIntegerComponent.MatchString(p) {
			parts[i] = fmt.Sprint(len(p))
		}
	}
	return strings.Join(parts, ".")
}

func (c *c07Case) strs() []*string {
	if c.Kind == "triple" {
		return []*string{&c.A, &c.B, &c.C}
	}
	return []*string{&c.A, &c.B}
}

var alpineNumbers = regexp.MustCompile(`^[0-9]+(?:\.[0-9]+)*`)

// alpineZeroSpelling: an Alpine version with a non-initial numeric component spelled with
// two or more zeros only ("1.00"). Such a component compares as a string against a real
// component ("0" < "00") but numerically against the implicit padding of a shorter
// version (0 == 00), so 1 == 1.0, 1 == 1.00 and 1.0 < 1.00.
func alpineZeroSpelling(s string, repair bool) (string, bool) {
	head := alpineNumbers.FindString(s)
	parts := strings.Split(head, ".")
	found := false
	for i, p := range parts {
		if i > 0 && len(p) > 1 && strings.Trim(p, "0") == "" {
			found = true
			parts[i] = "0"
		}
	}
	if !found || !repair {
		return s, found
	}
	return strings.Join(parts, ".") + s[len(head):], true
}

var alpineSuffixes = regexp.MustCompile(`_(alpha|beta|pre|rc|cvs|svn|git|hg|p)([0-9]*)`)

// alpineCvsVsNone: at some suffix position one version has "_cvs" with number 0 (or no
// number) and the other version has no suffix at all: fetchSuffix pads with weight 5,
// which is the weight of "cvs" instead of that of "no suffix" (4), so they tie.
func alpineCvsVsNone(a, b string) bool {
	x, y := alpineSuffixes.FindAllStringSubmatch(a, -1), alpineSuffixes.FindAllStringSubmatch(b, -1)
	if len(x) < len(y) {
		x, y = y, x
	}
	for i := len(y); i < len(x); i++ {
		if x[i][1] == "cvs" && strings.Trim(x[i][2], "0") == "" {
			return true
		}
	}
	return false
}

var reDigits = regexp.MustCompile(`[0-9]+`)

// packagistOverflowNext: comparing x with y, y has more components than x and the first
// extra one is a number above 2^63-1. comparePackagistComponents decides "the next
// component is a number" with strconv.Atoi, which fails on it, and then treats the number
// like a stability word: "1" == "1.99999999999999999999" although "1" < "1.5" < that.
func packagistOverflowNext(x, y string) bool {
	cx, cy := vergram.PackagistComponents(x), vergram.PackagistComponents(y)
	return len(cx) < len(cy) && vergram.ExceedsInt64(cy[len(cx)])
}

type knownClass struct {
	name   string
	match  func(c *c07Case) bool
	repair func(c *c07Case)
}

var knownClasses = []knownClass{
	{
		name: "c07.cran_nonnumeric",
		match: func(c *c07Case) bool {
			if c.Eco != "CRAN" {
				return false
			}
			for _, s := range c.strs() {
				if cranNonNumeric(*s) {
					return true
				}
			}
			return false
		},
		repair: func(c *c07Case) {
			for _, s := range c.strs() {
				*s = cranRepair(*s)
			}
		},
	},
	{
		name: "c07.alpine_zero_component_padding",
		match: func(c *c07Case) bool {
			if c.Eco != "Alpine" || c.Kind != "triple" {
				return false
			}
			for _, s := range c.strs() {
				if _, bad := alpineZeroSpelling(*s, false); bad {
					return true
				}
			}
			return false
		},
		repair: func(c *c07Case) {
			for _, s := range c.strs() {
				*s, _ = alpineZeroSpelling(*s, true)
			}
		},
	},
	{
		name: "c07.alpine_cvs_suffix_vs_none",
		match: func(c *c07Case) bool {
			return c.Eco == "Alpine" && c.Kind == "canon" && alpineCvsVsNone(c.A, c.B)
		},
		repair: func(c *c07Case) {
			c.A = strings.ReplaceAll(c.A, "_cvs", "_svn")
			c.B = strings.ReplaceAll(c.B, "_cvs", "_svn")
		},
	},
	{
		name: "c07.packagist_atoi_overflow",
		match: func(c *c07Case) bool {
			if c.Eco != "Packagist" || c.Kind != "triple" {
				return false
			}
			for _, x := range c.strs() {
				for _, y := range c.strs() {
					if packagistOverflowNext(*x, *y) {
						return true
					}
				}
			}
			return false
		},
		repair: func(c *c07Case) {
			for _, s := range c.strs() {
				*s = reDigits.ReplaceAllStringFunc(*s, func(d string) string {
					if vergram.ExceedsInt64(d) {
						return "9223372036854775807"
					}
					return d
				})
			}
		},
	},
}

// excludeKnown suppresses, by construction, the classes listed as known findings.
func excludeKnown(col *ev.Collector, c *c07Case) {
	for _, k := range knownClasses {
		if col.IsKnown(k.name) && k.match(c) {
			col.Excluded(k.name)
			k.repair(c)
			if k.match(c) {
				panic("harness bug: repair of class " + k.name + " left the case inside the class")
			}
		}
	}
}

// ---- class labels (measured distribution of the generators) ----

var (
	reBig      = regexp.MustCompile(`[0-9]{20,}`)
	reLeadZero = regexp.MustCompile(`(^|[^0-9])0[0-9]`)
	reLetter   = regexp.MustCompile(`[A-Za-z]`)
)

// caseVariants: at least two of the strings differ only in letter case.
func caseVariants(ss ...string) bool {
	for i := range ss {
		for j := i + 1; j < len(ss); j++ {
			if ss[i] != ss[j] && strings.EqualFold(ss[i], ss[j]) {
				return true
			}
		}
	}
	return false
}

func hasLetter(s string) bool { return reLetter.MatchString(strings.TrimPrefix(s, "v")) }

func features(kind string, ss ...string) []string {
	var out []string
	big, lz, let, nolet := false, false, false, false
	dots := map[int]bool{}
	for _, s := range ss {
		big = big || reBig.MatchString(s)
		lz = lz || reLeadZero.MatchString(s)
		if hasLetter(s) {
			let = true
		} else {
			nolet = true
		}
		dots[strings.Count(s, ".")] = true
	}
	if big {
		out = append(out, kind+".has_20plus_digit_number")
	}
	if lz {
		out = append(out, kind+".has_leading_zero")
	}
	if let {
		out = append(out, kind+".has_nonnumeric_component")
	}
	if let && nolet {
		out = append(out, kind+".qualifier_vs_plain")
	}
	if len(dots) > 1 {
		out = append(out, kind+".differing_component_counts")
	}
	if caseVariants(ss...) {
		out = append(out, kind+".case_variant")
	}
	return out
}

// ---- the code under test ----

// compare returns Parse(a, eco).CompareStr(b): the result, the parse error of a, the
// comparison error.
func compare(eco, a, b string) (int, error, error) {
	v, err := semantic.Parse(a, eco)
	if err != nil {
		return 0, err, nil
	}
	r, cerr := v.CompareStr(b)
	return r, nil, cerr
}

func inRange(r int) bool { return r == -1 || r == 0 || r == 1 }

// ---- leg (a): arbitrary strings ----

func propPair(c c07Case) (ev.Outcome, error) {
	o := ev.Outcome{Classes: []string{"pair." + c.Eco}}
	raa, pa, caa := compare(c.Eco, c.A, c.A)
	rbb, pb, cbb := compare(c.Eco, c.B, c.B)
	if pa == nil && caa == nil && raa != 0 {
		return o, fmt.Errorf("%s: %q compared with itself gives %d", c.Eco, c.A, raa)
	}
	if pb == nil && cbb == nil && rbb != 0 {
		return o, fmt.Errorf("%s: %q compared with itself gives %d", c.Eco, c.B, rbb)
	}
	rab, _, cab := compare(c.Eco, c.A, c.B)
	rba, _, cba := compare(c.Eco, c.B, c.A)
	if pa != nil || pb != nil || cab != nil || cba != nil || caa != nil || cbb != nil {
		o.Classes = append(o.Classes, "pair.not_both_accepted")
		return o, nil
	}
	if !inRange(rab) || !inRange(rba) {
		return o, fmt.Errorf("%s: comparison result outside {-1,0,1}: cmp(%q,%q)=%d cmp(%q,%q)=%d", c.Eco, c.A, c.B, rab, c.B, c.A, rba)
	}
	if rab != -rba {
		return o, fmt.Errorf("%s: cmp(%q,%q)=%d but cmp(%q,%q)=%d (not the negation)", c.Eco, c.A, c.B, rab, c.B, c.A, rba)
	}
	o.Classes = append(o.Classes, "pair.both_accepted")
	if c.A != c.B {
		o.NonTrivial = true
		o.Classes = append(o.Classes, features("pair", c.A, c.B)...)
		if rab == 0 {
			o.Classes = append(o.Classes, "pair.tie_of_distinct_strings")
		}
		if vergram.IsValid(c.Eco, c.A) && vergram.IsValid(c.Eco, c.B) {
			o.Classes = append(o.Classes, "pair.both_grammar_valid")
		}
	}
	return o, nil
}

// ---- leg (b): triples of grammar-valid versions ----

func propTriple(c c07Case) (ev.Outcome, error) {
	o := ev.Outcome{Classes: []string{"triple." + c.Eco}}
	v := [3]string{c.A, c.B, c.C}
	for _, s := range v {
		if !vergram.IsValid(c.Eco, s) {
			// only reachable from a hand-written replay file: no verdict outside the grammar
			o.Classes = append(o.Classes, "triple.not_in_grammar_skipped")
			return o, nil
		}
	}
	var m [3][3]int
	for i := range v {
		for j := range v {
			r, perr, cerr := compare(c.Eco, v[i], v[j])
			if perr != nil {
				return o, fmt.Errorf("%s: grammar-valid version %q rejected by Parse: %v", c.Eco, v[i], perr)
			}
			if cerr != nil {
				return o, fmt.Errorf("%s: comparing grammar-valid versions %q and %q fails: %v", c.Eco, v[i], v[j], cerr)
			}
			if !inRange(r) {
				return o, fmt.Errorf("%s: cmp(%q,%q)=%d outside {-1,0,1}", c.Eco, v[i], v[j], r)
			}
			m[i][j] = r
		}
	}
	for i := range v {
		if m[i][i] != 0 {
			return o, fmt.Errorf("%s: %q compared with itself gives %d", c.Eco, v[i], m[i][i])
		}
		for j := range v {
			if m[i][j] != -m[j][i] {
				return o, fmt.Errorf("%s: cmp(%q,%q)=%d but cmp(%q,%q)=%d (not the negation)", c.Eco, v[i], v[j], m[i][j], v[j], v[i], m[j][i])
			}
		}
	}
	for i := range v {
		for j := range v {
			for k := range v {
				if i == j || j == k || i == k {
					continue
				}
				if m[i][j] <= 0 && m[j][k] <= 0 && m[i][k] > 0 {
					return o, fmt.Errorf("%s: not transitive: %q %s %q and %q %s %q but %q > %q", c.Eco,
						v[i], rel(m[i][j]), v[j], v[j], rel(m[j][k]), v[k], v[i], v[k])
				}
				if m[i][j] == 0 && m[i][k] != m[j][k] {
					return o, fmt.Errorf("%s: equality is not a congruence: %q == %q but cmp(%q,%q)=%d and cmp(%q,%q)=%d", c.Eco,
						v[i], v[j], v[i], v[k], m[i][k], v[j], v[k], m[j][k])
				}
			}
		}
	}
	if c.A != c.B || c.B != c.C {
		o.NonTrivial = true
		o.Classes = append(o.Classes, features("triple", c.A, c.B, c.C)...)
		ties := 0
		for _, p := range [][2]int{{0, 1}, {0, 2}, {1, 2}} {
			if m[p[0]][p[1]] == 0 && v[p[0]] != v[p[1]] {
				ties++
			}
		}
		if ties > 0 {
			o.Classes = append(o.Classes, "triple.tie_of_distinct_strings")
		}
		if m[0][1] != 0 && m[1][2] != 0 && m[0][2] != 0 {
			o.Classes = append(o.Classes, "triple.three_distinct_ranks")
		}
	}
	return o, nil
}

func rel(r int) string {
	switch {
	case r < 0:
		return "<"
	case r > 0:
		return ">"
	}
	return "=="
}

// ---- leg (c): canonical versions against independent references ----

func propCanon(c c07Case) (ev.Outcome, error) {
	o := ev.Outcome{Classes: []string{"canon." + c.Eco}}
	if !vergram.IsCanonicalPair(c.Eco, c.A, c.B) {
		o.Classes = append(o.Classes, "canon.not_canonical_skipped")
		return o, nil
	}
	rab, pa, cab := compare(c.Eco, c.A, c.B)
	rba, pb, cba := compare(c.Eco, c.B, c.A)
	for _, e := range []error{pa, cab, pb, cba} {
		if e != nil {
			return o, fmt.Errorf("%s: canonical versions %q, %q not accepted: %v", c.Eco, c.A, c.B, e)
		}
	}
	refs := vergram.References(c.Eco, c.A, c.B)
	if len(refs) == 0 {
		o.Classes = append(o.Classes, "canon.no_reference_applies")
		return o, nil
	}
	for _, r := range refs {
		if rab != r.Cmp {
			return o, fmt.Errorf("%s: cmp(%q,%q)=%d, but %s orders them %d", c.Eco, c.A, c.B, rab, r.Name, r.Cmp)
		}
		if rba != -r.Cmp {
			return o, fmt.Errorf("%s: cmp(%q,%q)=%d, but %s orders them %d", c.Eco, c.B, c.A, rba, r.Name, -r.Cmp)
		}
	}
	o.Classes = append(o.Classes, fmt.Sprintf("canon.references_%d", len(refs)))
	if c.A != c.B {
		o.NonTrivial = true
		o.Classes = append(o.Classes, features("canon", c.A, c.B)...)
		if rab == 0 {
			o.Classes = append(o.Classes, "canon.tie_of_distinct_strings")
		}
	}
	return o, nil
}

// propC07 decides one case; Kind selects the oracle.
func propC07(c c07Case) (ev.Outcome, error) {
	if vergram.Family(c.Eco) == "" {
		return ev.Outcome{Classes: []string{"unknown_ecosystem_skipped"}}, nil
	}
	switch c.Kind {
	case "pair", "":
		return propPair(c)
	case "triple":
		return propTriple(c)
	case "canon":
		return propCanon(c)
	}
	return ev.Outcome{Classes: []string{"unknown_kind_skipped"}}, nil
}

// ---- generators ----

// genEco draws the ecosystem uniformly (rapid's integer generators favour small values;
// four fair bits do not).
func genEco(t *rapid.T) string {
	i := 0
	for b := 0; b < 4; b++ {
		i <<= 1
		if rapid.Bool().Draw(t, "ecobit") {
			i |= 1
		}
	}
	return vergram.Ecosystems[i]
}

func genPair(col *ev.Collector) func(*rapid.T) c07Case {
	return func(t *rapid.T) c07Case {
		c := c07Case{Kind: "pair", Eco: genEco(t)}
		c.A, c.B = vergram.GenArbitraryPair(t, c.Eco)
		excludeKnown(col, &c)
		return c
	}
}

func genTriple(col *ev.Collector) func(*rapid.T) c07Case {
	return func(t *rapid.T) c07Case {
		c := c07Case{Kind: "triple", Eco: genEco(t)}
		c.A, c.B, c.C = vergram.GenValidTriple(t, c.Eco)
		excludeKnown(col, &c)
		return c
	}
}

func genCanon(col *ev.Collector) func(*rapid.T) c07Case {
	return func(t *rapid.T) c07Case {
		c := c07Case{Kind: "canon", Eco: genEco(t)}
		c.A, c.B = vergram.GenCanonPair(t, c.Eco)
		excludeKnown(col, &c)
		return c
	}
}

// ---- legs ----

const nEco = 16

// (quick, thorough-per-shard) numbers of cases; the ecosystem is drawn uniformly, so the
// per-ecosystem counts are these divided by 16.
func TestC07_strings(t *testing.T) {
	col := ev.Get("C07")
	ev.Check(t, col, ev.Scale(nEco*3000, nEco*30000), genPair(col), propC07)
}

func TestC07_triples(t *testing.T) {
	col := ev.Get("C07")
	ev.Check(t, col, ev.Scale(nEco*2000, nEco*20000), genTriple(col), propC07)
}

func TestC07_canonical(t *testing.T) {
	col := ev.Get("C07")
	if !ev.Replaying() {
		calibrate(t, col)
	}
	ev.Check(t, col, ev.Scale(nEco*4000, nEco*40000), genCanon(col), propC07)
}

// calibrate checks the reference comparators against the repository's own fixtures on the
// canonical grammar before they are used as an oracle. A disagreement is a defect of the
// harness (reference or canonical grammar too wide), not of the repository: the run is
// then inconclusive, not a violation.
func calibrate(t *testing.T, col *ev.Collector) {
	total := 0
	for _, eco := range vergram.Ecosystems {
		for _, l := range vergram.FixtureLines(vergram.Family(eco)) {
			if !vergram.IsCanonicalPair(eco, l.A, l.B) {
				continue
			}
			want := map[string]int{"<": -1, "=": 0, ">": 1}[l.Op]
			for _, r := range vergram.References(eco, l.A, l.B) {
				total++
				if r.Cmp != want {
					t.Fatalf("harness calibration: reference %q disagrees with fixture line %q (%s) of %s: says %d", r.Name, l.A+" "+l.Op+" "+l.B, l.File, eco, r.Cmp)
				}
			}
		}
	}
	if total == 0 {
		t.Fatalf("harness calibration: no fixture lines found under %s/semantic/testdata", vergram.RepoDir())
	}
	col.SetExtra("reference_verdicts_calibrated_against_fixture_lines", total)
}
