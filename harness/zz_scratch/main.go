package main

import (
	"fmt"
	"sort"

	"deps.dev/util/semver"
	"verifharness/internal/vergram"
)

func main() {
	vs := []string{"1.0.0-alpha-1", "1.0.0-alpha1", "1.0.0-beta", "1.0.0-M1", "1.0.0-M2", "1.0.0-rc1", "1.0.0-rc-1", "1.0.0-rc", "1.0.0-SNAPSHOT", "1.0.0", "1.0.0.Final", "1.0.0-jre", "1.0.1", "1.0", "1.0-SNAPSHOT", "1.0.Final", "1.0-jre", "1.0.0-sp", "1.0.0-android", "1.1.0-SNAPSHOT", "2.0.0-M1","1.0.0-rc2", "1.0.0-rc-2", "1.0.0-alpha", "1.0.0-alpha-2", "1.0.0-cr1", "1.0.0-milestone-1","1.0.0-m1", "1.0.0-snapshot", "1.0.0.RELEASE", "1.0.0.GA", "1.0.0-final"}
	sort.SliceStable(vs, func(i, j int) bool { r := vergram.References("Maven", vs[i], vs[j]); return r[0].Cmp < 0 })
	for i, v := range vs {
		eq := ""
		if i > 0 { r := vergram.References("Maven", vs[i-1], v); if r[0].Cmp == 0 { eq = " (== previous)" } }
		fmt.Println(v, eq, vergram.IsValid("Maven", v), vergram.IsCanonical("Maven", v))
	}
	for _, p := range [][2]string{{"1.0.0-SNAPSHOT", "1.0.0"}, {"1.0.0", "1.0.0-jre"}, {"1.0.0-M1", "1.0.0-rc1"}, {"1.0.0.Final", "1.0.1.Final"}, {"1.0.0.Final", "1.1.0.Final"},{"1.0.0-jre", "2.0.0-jre"}, {"1.0-SNAPSHOT", "1.0.1"}, {"1.0.0-SNAPSHOT","1.1.0-M1"}, {"1.0.Final","1.0.1"}, {"1.0.0", "1.0.0.Final"}, {"1.2.0-SNAPSHOT", "1.0.0"}} {
		c, d, err := semver.Maven.Difference(p[0], p[1])
		fmt.Println(p, c, d, err)
	}
}
