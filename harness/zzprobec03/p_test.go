package zzprobec03

import (
	"context"
	"fmt"
	"sort"
	"strings"
	"testing"

	"github.com/google/osv-scalibr/extractor/filesystem"
	"github.com/google/osv-scalibr/extractor/filesystem/language/golang/gomod"
	"github.com/google/osv-scalibr/extractor/filesystem/language/javascript/packagelockjson"
)

func run(t *testing.T, ex filesystem.Extractor, path, content string) {
	inv, err := ex.Extract(context.Background(), &filesystem.ScanInput{Path: path, Reader: strings.NewReader(content)})
	var got []string
	for _, p := range inv.Packages {
		got = append(got, p.Name+"@"+p.Version)
	}
	sort.Strings(got)
	fmt.Printf("err=%v\n  %s\n", err, strings.Join(got, "\n  "))
}

func TestNpm(t *testing.T) {
	run(t, packagelockjson.NewDefault(), "package-lock.json", `{
 "name":"m","lockfileVersion":3,"packages":{
  "": {"name":"m","workspaces":["packages/*"]},
  "node_modules/@acme/cli": {"resolved":"tools/@acme/cli","link":true},
  "node_modules/core": {"resolved":"packages/core","link":true},
  "node_modules/renamed": {"resolved":"packages/renamed-dir","link":true},
  "node_modules/wrappy": {"version":"1.0.2"},
  "packages/core": {"version":"2.3.4"},
  "packages/core/node_modules/@types/node": {"version":"18.0.1"},
  "packages/renamed-dir": {"name":"renamed","version":"0.9.0"},
  "tools/@acme/cli": {"version":"0.1.0"},
  "tools/@acme/cli/node_modules/left-pad": {"version":"1.0.0"},
  "tools/@acme/noversion": {},
  "../outside/@x/y": {"version":"3.0.0"},
  "node_modules/y2": {"resolved":"../outside/@x/y","link":true},
  "node_modules/@s/p/node_modules/@t/q": {"version":"5.0.0"},
  "node_modules/@s/p": {"version":"4.0.0"}
 }}`)
}

func TestGo(t *testing.T) {
	req := "module x\n\ngo 1.21\n\nrequire (\n\tm.io/a v1.0.0\n\tm.io/a v1.1.0\n\tm.io/b v1.0.0\n)\n"
	for _, r := range []string{
		"replace m.io/a v1.0.0 => m.io/a v1.0.5\nreplace m.io/a => f.io/a v2.0.0\n",
		"replace m.io/a => f.io/a v2.0.0\nreplace m.io/a v1.0.0 => m.io/a v1.0.5\n",
		"replace m.io/b => m.io/a v1.7.0\nreplace m.io/a => f.io/a v2.0.0\n",
		"replace m.io/a => f.io/a v2.0.0\nreplace m.io/b => m.io/a v1.7.0\n",
		"replace m.io/a v1.0.0 => ./local/a\nreplace m.io/a v1.1.0 => ../b\n",
		"replace m.io/a => m.io/a v1.1.0\n",
		"replace m.io/c => ../c\nreplace m.io/a v1.2.0 => ../c\n",
		"replace m.io/b v1.0.0 => m.io/a v1.0.0\nreplace m.io/a v1.0.0 => g.io/a v3.0.0\n",
		"replace m.io/a v1.0.0 => g.io/a v3.0.0\nreplace m.io/b v1.0.0 => m.io/a v1.0.0\n",
	} {
		fmt.Println("----", strings.ReplaceAll(r, "\n", " ; "))
		run(t, gomod.New(), "go.mod", req+r)
	}
}
