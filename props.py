# Per-property configuration of the driver: which test binary / Test function decides a
# property, its level, and the texts that go into the evidence file and MANIFEST.json.
# One file per harness family under propsd/, each defining a dict PROPS.
import glob, os, runpy

PROPS = {}
# Properties not claimed, with the reason (anything neither in PROPS nor here gets a default text).
NOT_APPLICABLE = {}
# Commits in /repo that add verif-tagged hook files.
HOOK_COMMITS = ["d8eee8ea", "eabb9768"]

for _f in sorted(glob.glob(os.path.join(os.path.dirname(os.path.abspath(__file__)), "propsd", "*.py"))):
    _ns = runpy.run_path(_f)
    PROPS.update(_ns.get("PROPS", {}))
    NOT_APPLICABLE.update(_ns.get("NOT_APPLICABLE", {}))
PROPS = dict(sorted(PROPS.items()))

# Properties whose checks are finished (quiet on the unchanged tree, sensitivity-tested):
# only these are claimed in MANIFEST.json; the driver can run any configured property.
CLAIMED = ["C01", "C02", "C03", "C04", "C05", "C06", "C07", "C08", "C09", "C10", "C11", "C12", "C13", "C14", "C15", "C16", "C17", "C18", "C19", "C20"]
