# Concurrency family (concfam, built with -race): C16.
PROPS = {}

PROPS["C16"] = {
    "level": "exploration",
    "engine": "rapid",
    "technique": "harness-owned schedules at callback granularity (generated orders of operation starts and fetch releases / patch-attempt completions) with a history oracle, run under the Go race detector",
    "level_text": "Three legs in one -race binary. (a) patch computation: the harness parks every patch attempt at a gate and releases them in generated orders (all permutations of <=4 initial attempts), requiring the same sorted, duplicate-free patch list as the sequential schedule. (b) request cache: 2-4 workers issue Get/SetMap/GetMap on 1-2 keys; fetch functions park until a generated step list releases them; the verdict is computed from the recorded history (logical clock), never from timing. (c) scan engine: scans delayed to outlive the 2 s status interval run three at a time under the race detector and must equal the undelayed scan. A race-detector report is turned into a VIOLATION by the driver.",
    "level_note": "Weaker than the property's quantifier: only interleavings at the granularity of caller-supplied callbacks are owned by the harness; finer interleavings are whatever the race detector observes in the executions explored. combined_native_client.go needs live registries and is not exercised. Timing is used only to let goroutines reach their next blocking point (exploration), never for verdicts, except a 20 s 'Get never returned' bound.",
    "rule": "(b) rapid-generated worker programs (2..4 workers x 1..3 ops: Get on 1..2 keys with generated success/failure, SetMap, GetMap) x generated step lists (start op of worker g / release parked fetch i); non-trivial = >=2 Gets on one key overlap a fetch in flight; (c) generated tree sizes/delays with 1..2 roots; non-trivial = the status ticker fired during the scan; (a) see leg description; distinct by hash of the case JSON",
    "assumptions": ["a value returned by Get must come from a fetch invocation for that key that completed before the Get returned, or from a SetMap",
                    "after a successful Get returned, a later Get of the key (no SetMap in between) must observe the same value without invoking its fetch function"],
    "legs": [
        {"fam": "concfam", "run": "^TestC16_patch$", "race": True},
        {"fam": "concfam", "run": "^TestC16_cache$", "race": True},
        {"fam": "concfam", "run": "^TestC16_scan$", "race": True, "shards": 2},
    ],
    "timeout": {"quick": 900, "thorough": 3000},
}
