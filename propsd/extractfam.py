# C03, C14, C15 (extractfam)
PROPS = {}

PROPS["C03"] = {
    "level": "exploration",
    "rule": "one evaluation = one generated record set (0..12 distinct packages of one of the 12 formats) rendered under two independently drawn layouts, each rendering extracted and compared with the generator's expected (name, version) multiset, Locations == [path], no error, and both renderings agreeing; for go.mod a record is a requirement, the go directive or a replace directive; non-trivial = at least 2 records and at least one of the two layouts differs from the canonical layout of the format in at least one dimension the format has (record order, special-case position, CRLF, missing final newline, extra blank lines, comments, more/fewer unrelated fields, continuation lines, indentation, key order, section order, sub-format); distinct by the case JSON. The fixture leg adds one evaluation per hand-transcribed repository fixture (renderer validation).",
    "assumptions": [
        "'well-formed' is what the harness renderers emit; every renderer is validated on each run against 29 hand-transcribed repository fixtures (TestC03_fixtures): extractor(fixture) == extractor(render(transcription)) == expected(transcription)",
        "line endings: CRLF is generated for requirements.txt, go.mod, Cargo.lock, package-lock.json, composer.lock, Gemfile.lock, gradle.lockfile, poetry.lock, Pipfile.lock, packages.lock.json (text/JSON/TOML files that are edited, checked out with autocrlf, and whose own tools read them line-ending agnostically); NOT for dpkg status and apk installed, which are only ever written by the package manager on Linux with LF",
        "comments are generated only where the format has a comment syntax (requirements.txt '#', go.mod '//', TOML '#', gradle.lockfile '#'); blank lines only where the format's own reader ignores them (between dpkg/apk stanzas, between Gemfile.lock sections, between lines of the line-oriented formats, between TOML tables)",
        "dpkg: not installed = third Status word other than 'installed' (as dpkg.go documents); the states triggers-awaited / triggers-pending are not generated (dpkg treats them as installed, the extractor documents only 'installed'; the property text does not settle them); a missing Status field is only generated for the distroless status.d layout with a single stanza",
        "requirements.txt: pinned requirements with the specifiers ==, ===, >=, <=, ~= (the version the extractor documents to report), optional extras, markers, --hash options, backslash continuations; no -r includes, URLs, environment variables or unsupported specifiers (<, !=, ranges, wildcards)",
        "go.mod: the documented extra package 'stdlib' (go directive, overridden by toolchain) is expected; replace directives rename the replaced requirement as the extractor documents, resolved the way the go command does (go.dev/ref/mod#go-mod-file-replace): the directive naming the exact required version wins over a version-less one for the same path whatever their order, a replacement is final (directives are looked up by the module as required, not by a replacement's path), directives for modules or versions that are not required have no effect, two requirements resolved to the same module version are one package. Generated: a path required at several versions; per module an exact + a version-less directive in both orders, several exact directives, version-less directives covering several required versions, directives for unrequired modules/versions, replacement by a directory, by another version of the same path, by a module that is itself required; block, one-line and mixed forms; left-hand sides are never repeated (the go command rejects conflicting directives). go < 1.17 files are generated without a go.sum next to them",
        "package-lock.json: the same (name, version) installed at several paths is one package (npm's own dedup, documented by the extractor). v2/v3 'packages' keys are node_modules locations (scoped, nested, nested under scoped parents) and plain project directories (workspace members / file: targets, below or beside the project root, with children installed under <dir>/node_modules); per npm's name-from-folder rule the entry carries 'name' only when it differs from the last path segment preceded by its parent folder when that starts with '@' (an unneeded 'name' is sometimes written too); a {resolved: <dir>, link: true} entry is the symbolic link to a directory entry, not a package of its own (npm docs: 'the link target will also be included in the lockfile'). lockfileVersion 1 has no 'packages': the same records are rendered as ordinary dependencies there. Git dependencies and versionless entries are not generated",
        "the expectation for package-lock.json and go.mod is cross-checked on every evaluation by an independent reader of the rendered bytes written from the formats' documentation (internal/layouts/refread.go); a disagreement is reported as a harness error",
        "packages.lock.json: the same (name, version) is not repeated across target frameworks and Project-type references are not generated (the property does not say whether per-framework repeats are one package or several)",
        "names are kept distinct under case-folding and [-_.] folding except where the ecosystem legitimately has one name at several versions (Cargo.lock, package-lock.json, gradle.lockfile, packages.lock.json across frameworks)",
    ],
    "engine": "rapid",
    "technique": "property-based testing with layout-aware renderers (model = the generator's record set), metamorphic re-rendering",
    "level_text": "Sampled exploration: 1 500 (quick) / 16 x 15 000 (thorough) generated (record set, layout, layout) triples per format, i.e. 18 000 / 2.9 million cases; the oracle is exact (the generator knows what it wrote). Says nothing about layouts the renderers cannot produce.",
    "level_note": "Trusted: the 12 renderers (validated against repository fixtures on every run) and the per-format expectation function (installed filter, go.mod stdlib/replace resolution, npm dedup and name-from-folder; for go.mod and package-lock.json cross-checked against a second, byte-level reference reader).",
    "legs": [{"fam": "extractfam", "run": "^(TestC03|TestC03_fixtures)$"}],
    "timeout": {"quick": 600, "thorough": 1800},
}

PROPS["C14"] = {
    "level": "exploration",
    "rule": "one evaluation = one package returned by a built-in extractor (fixture leg: every non-empty fixture under every extractor's testdata directory, run through its own extractor at a path its FileRequired accepts; rendered leg: every package of a C03-renderer output, half of them with characters needing percent-encoding injected into names and versions) put through ToPURL, Ecosystem, packageindex, ScanResultToProto, ToSPDX23, ToCDX and the purl print/parse round trip; non-trivial = the package has a purl and its name or version contains at least one non-alphanumeric character; distinct by (extractor, purl string)",
    "assumptions": [
        "fixtures are copied to a scratch directory and scanned there with Root set (no writes under the repository); files listed in /root/.vp/EMPTIED_FILES.txt, empty files and files > 4 MiB are skipped; java/pomxmlnet (network) is skipped",
        "a fixture is used when FileRequired accepts its path relative to the testdata tree (any suffix) or a production-style path from a per-extractor table; fixtures with no accepted path are counted and skipped",
        "a package returned together with an error is still emitted by the core library and is checked",
        "'SBOM records preserve name, version, ...': CycloneDX component name/version/purl/locations; SPDX package carries the purl locator and the purl's name/version (that is what ToSPDX23 documents); packages whose purl has an empty name or version are documented skips of ToSPDX23",
        "the C02 mutation corpus leg of the design is covered by the hostile-character renderer inputs (C02 lives in another family)",
    ],
    "engine": "rapid+enumeration",
    "technique": "harvest-and-check: enumeration of repository fixtures plus property-based generation of extractor inputs",
    "level_text": "Sampled exploration of what extractors emit: all ~460 usable repository fixtures of the 57 offline extractors exhaustively (~990 packages), plus 8 000 (quick) / 16 x 50 000 (thorough) generated extractor inputs; each emitted package is checked against the exact conversions.",
    "level_note": "Trusted: the production-path table used to place fixtures, the field-by-field comparison code.",
    "legs": [{"fam": "extractfam", "run": "^(TestC14_fixtures|TestC14_rendered)$"}],
    "timeout": {"quick": 600, "thorough": 1800},
}

PROPS["C15"] = {
    "level": "exploration",
    "rule": "one evaluation = one generated inventory (0..12 packages of a harness extractor whose ToPURL returns a generated purl or none) exported with converter.ToSPDX23/ToCDX and binary/{spdx,cdx} writers to the five formats (spdx23-json, spdx23-yaml, spdx23-tag-value, cdx-json, cdx-xml) under importer-recognised file names and scanned back with scalibr.New().Scan using the sbom/spdx and sbom/cdx extractors; per format the multiset of read-back purl strings must equal the exported ones after one packageurl-go parse/print normalisation; non-trivial = at least 2 exported packages and at least one character needing escaping in a name, version, namespace, qualifier value, sub-path or location; distinct by the case JSON",
    "assumptions": [
        "exported = has a purl (CycloneDX); for SPDX additionally purl name and version non-empty, the documented skips of ToSPDX23",
        "generated purls are valid for their type under packageurl-go's own rules (cran has a version, conan has no namespace, qualifier keys are lower-case identifiers with non-empty values, sub-path segments are not '.' or '..')",
        "purl types range over the types the built-in extractors emit (cross-checked at run time with the C14 harvest) ",
        "names, versions and locations are free of control characters (tag-value and XML cannot carry them)",
        "the output formats are part of the case; while known finding c15.spdx_tag_value_supplier is listed the generator leaves spdx23-tag-value out (every such export is unreadable). VERIF_C15_TAGVALUE_PATCHED=1 adds an exploratory variant in which the harness repairs the PackageSupplier lines before scanning; it is off by default and not part of the verdict",
        "the expected purl strings are printed by packageurl-go from the generated fields, not by the library's PackageURL.String",
    ],
    "engine": "rapid",
    "technique": "round-trip property-based testing (export then import with the library's own code)",
    "level_text": "Sampled exploration: 1 200 (quick) / 16 x 8 000 (thorough) generated inventories, each exported to and read back from every format not excluded by a known finding.",
    "level_note": "Trusted: packageurl-go as the normaliser on both sides; the harness extractor.",
    "legs": [{"fam": "extractfam", "run": "^TestC15$"}],
    "timeout": {"quick": 600, "thorough": 1800},
}
