# C02, C06 (fuzzfam: extractor fuzzing and scan side effects; jailfam: image side effects in a chroot jail)
PROPS = {}
PROPS["C02"] = {
    "level": "exploration",
    "rule": "one evaluation = one (extractor, required path, input bytes, bytes of one neighbour file when that is what the case mutates) fed to Extract the way the walk does it (file opened through the scan FS, Root set, neighbour files such as etc/os-release, _locales/*, go.sum in place); non-trivial = Extract produced at least one package, returned an error or panicked (the input reached the extractor's parser/validator); distinct by (extractor, path, SHA-256 of the input bytes). Classes 'ext:<name>:<result>' are the per-extractor outcome table (ok_packages, ok_empty, error, error_with_packages, panic, overrun), 'mut:<op>' the mutator distribution, 'containment_scan' the number of real Scanner.Scan containment checks (each under one of the option sets ErrorOnFSErrors / StoreAbsolutePath / UseGitignore / PrintDurationAnalysis)",
    "assumptions": [
        "all 58 built-in filesystem extractors of list.All except java/pomxmlnet (needs network) are exercised; required paths come from probing FileRequired with production paths and the names under each extractor's testdata",
        "seeds: every fixture under the extractor's testdata up to 256 KiB (larger ones are not used), minus the fixture files emptied in this sandbox, plus a few tiny literal documents; inputs are capped at 256 KiB",
        "'bounded' is decided against a budget of 20 s and 1 GiB allocated bytes per Extract call; an overrun only counts when it repeats in an isolated process, where the time budget counts as exceeded when the call uses more than 20 s of CPU time, does not return within 80 s, or takes longer than 20 s while using less than a tenth of that as CPU time (so that a busy machine cannot fake an overrun)",
        "a panic is attributed to (extractor, innermost function of github.com/google/osv-scalibr on the panic stack); known findings are excluded by that call site only",
    ],
    "engine": "rapid",
    "technique": "structure-aware mutation of fixture corpora (rapid-drawn, shrinkable, replayable) plus an enumerated sweep over every text fixture, archive metadata member and text neighbour file (each line deleted / duplicated / re-terminated, whole-document CRLF / double conversion / BOM / no final newline, cut-off at byte offsets, sub-token deletion inside scalars) and over every ELF fixture (section header fields set to hostile values); Extract runs in a child process under recover, a deadline and an allocation watchdog, so that hangs and fatal runtime errors are attributed to their input and re-confirmed in a fresh process; containment checked by real scans",
    "level_text": "Sampled exploration of the input space of each built-in extractor at fuzzing scale; every evaluation is decided by an oracle that needs no expected output (no panic, budget, containment).",
    "level_note": "Memory is observed through allocation totals (polled every 150 ms, so a runaway allocation is stopped early), not peak RSS. Binary formats whose fixtures were emptied in this sandbox (Go binaries, rpm sqlite/ndb, vmlinuz) only get synthetic or truncated seeds. No coverage-guided native fuzzing leg: the thorough tier is 16 shards x 3000 rapid mutants per extractor. The sweep (leg TestC02_linesweep, classes 'linesweep_<op>', 'linesweep_aux') has a per-target budget of 96 lines, 48 cut-off offsets and 5+5 scalars in the quick tier, 1200 / 1024 / 48+48 in the thorough tier. Containment scans run under generated scan options, a third of them with every extractor of the registry enabled and compared with the scan in which only the three extractors concerned are enabled. Known findings: panics and fatal errors are counted and skipped by call site; the quadratic YAML/TOML inputs are capped in the generator (repeat <= 64 copies, nesting <= 1000); os/rpm runs with a 300 ms parse timeout; dotnet/pe and os/macapps cases get a 3 s deadline while their overrun class is listed.",
    "legs": [
        {"fam": "fuzzfam", "run": "^TestC02_(linesweep|mutants)$"},
    ],
    "timeout": {"quick": 900, "thorough": 3000},
}

PROPS["C06"] = {
    "level": "exploration",
    "rule": "scan leg: one evaluation = one sandbox (tree with files of every offline built-in extractor at production paths in the states valid/empty/truncated/corrupt, the neighbour files those extractors open (second database, locale files, go.sum, included requirement files) valid/empty/truncated/corrupt/absent, also enumerated per extractor in leg TestC06_scanaux, working directory, TMPDIR) scanned once under one capability tuple through a real or a virtual root; non-trivial = the tree holds a file of an enabled extractor that reads through a host path (os/rpm, dotnet/pe, containers/containerd). image leg: one evaluation = one set of hostile layer tars loaded by one of FromV1Image / FromTarball / UnpackSquashed / UnpackSquashedFromTarball (+ CleanUp); non-trivial = at least one entry whose cleaned name or link target lies lexically outside the designated directory, or a symlink-then-write-through sequence; distinct by case JSON. Two of five image cases carry a shared-link-target group: 2..4 symlink / hard-link entries at depths 1..5 with one byte-identical relative target string ('..', '../..', '../../..', '../x', '../../<existing sibling>', './..', 'a/../../..', ...), deepest first, shallowest first or as drawn, inside one layer or spread over the layers in the order the loader reads them, each usually followed by a regular entry written through it (<link>/escaped/<file>); classes 'shared_link_target_diff_depth' (+ _deep_first, _shallow_first, _hardlink, _symlink, _same_layer, _cross_layer, _harmless_then_escaping[_hardlink|_cross_layer|_to_existing], _escaping_then_harmless, _both_escaping, _both_harmless, _written_through_escaping[_later]), 'shared_link_target:<string>' and 'shared_link_depth:<n>' count the cases that contain such a pair, each label once per case, positions taken in the stream order of the loader (UnpackSquashed reads the top layer first)",
    "assumptions": [
        "scan: Capabilities is always set; a virtual root is scanned with DirectFS=false, a real root with DirectFS=true; java/pomxmlnet (network) is not enabled",
        "scan: os/rpm runs with a 300 ms parse timeout instead of 5 min (C02 known finding os/rpm|bdb_overflow_cycle_timeout); trees with sockets/FIFOs are out of scope",
        "image: every generated escape is bounded to stay inside the sandbox (targets >= 6 directories below the sandbox root, <= 4 '..' per name or link target, <= 3 in a shared link target, absolute paths only name sandbox paths); the loaders run inside a chroot of the sandbox when chroot is permitted (evidence key jail_active); without a jail the sandbox root lies 96 directories deeper and the sum of the '..' segments of all link entries of a case plus the largest number in one name (<= 88, <= 76 with a shared-target group; asserted per case) stays below that",
        "image: the names of a shared-target group never pass through another link entry (directory names and link names come from disjoint sets), so the known finding c06.unpack_link_physical_escape does not rewrite them; the unpack loaders create hard-link entries the way they create symlinks",
        "only effects inside the sandbox are observable",
    ],
    "engine": "rapid",
    "technique": "recursive before/after snapshots (path, type, link target, size, mode, SHA-256) of a sandbox around real scans and image loads; independent hop-by-hop symlink resolver; chroot jail",
    "level_text": "Sampled exploration of trees/capabilities and of hostile tar streams, each decided by a snapshot oracle that does not depend on the implementation.",
    "level_note": "The jail leg is a static CGO_ENABLED=0 binary; if chroot is refused the depth bound alone protects the host and evidence says jail_active=false.",
    "legs": [
        {"fam": "fuzzfam", "run": "^TestC06_(scan|scanaux)$"},
        {"fam": "jailfam", "run": "^TestC06_image$", "cgo": "0"},
    ],
    "timeout": {"quick": 900, "thorough": 2400},
}
