# C02, C06 (fuzzfam: extractor fuzzing and scan side effects; jailfam: image side effects in a chroot jail)
PROPS = {}
PROPS["C02"] = {
    "level": "exploration",
    "rule": "one evaluation = one (extractor, required path, input bytes) fed to Extract the way the walk does it (file opened through the scan FS, Root set); non-trivial = Extract produced at least one package, returned an error or panicked (the input reached the extractor's parser/validator); distinct by (extractor, path, SHA-256 of the input bytes). Classes 'ext:<name>:<result>' are the per-extractor outcome table (ok_packages, ok_empty, error, error_with_packages, panic, overrun), 'mut:<op>' the mutator distribution, 'containment_scan' the number of real Scanner.Scan containment checks",
    "assumptions": [
        "all 58 built-in filesystem extractors of list.All except java/pomxmlnet (needs network) are exercised; required paths come from probing FileRequired with production paths and the names under each extractor's testdata",
        "seeds: every fixture under the extractor's testdata up to 256 KiB (the first 256 KiB of larger ones), minus the fixture files emptied in this sandbox, plus a few tiny literal documents; inputs are capped at 256 KiB",
        "'bounded' is decided against a budget of 20 s wall time and 1 GiB allocated bytes per Extract call; an overrun only counts when it repeats in an isolated process",
        "a panic is attributed to (extractor, innermost function of github.com/google/osv-scalibr on the panic stack); known findings are excluded by that call site only",
    ],
    "engine": "rapid",
    "technique": "structure-aware mutation of fixture corpora (rapid-drawn, shrinkable, replayable) under recover + watchdog + allocation meter; containment checked by real scans; supervisor process attributes fatal runtime errors to their input; optional native go-fuzz leg in the thorough tier",
    "level_text": "Sampled exploration of the input space of each built-in extractor at fuzzing scale; every evaluation is decided by an oracle that needs no expected output (no panic, budget, containment).",
    "level_note": "Memory is observed through allocation totals, not peak RSS. Binary formats whose fixtures were emptied in this sandbox (Go binaries, rpm sqlite/ndb, vmlinuz) only get synthetic or truncated seeds.",
    "legs": [
        {"fam": "fuzzfam", "run": "^TestC02_mutants$"},
        {"fam": "fuzzfam", "run": "^TestC02_native$", "tiers": ["thorough"], "shards": 1, "no_replay": True},
    ],
    "timeout": {"quick": 900, "thorough": 3000},
}
