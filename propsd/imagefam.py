# C04, C17 (imagefam). C05 / C06(image) / C10(image) add their own entries to this file.
PROPS = {}
PROPS["C04"] = {
    "level": "exploration",
    "exhaustive": {"quick": False, "thorough": False},
    "rule": "rapid-generated layer sequences (1-5 tar layers over a 45-path universe of depth <= 4; entries dir/file/symlink/whiteout/opaque in a generated in-tar order; explicit, partial or implicit parents; plain, './' and absolute names; PAX/USTAR/GNU; history aligned / with empty layers / absent / mismatched; FileRequirerAll or a path-set requirer); every view i is compared with the reference overlay on every mentioned path (Stat, Open+ReadAll, ReadDir) and on a walk, then UnpackSquashed is compared; non-trivial = >= 2 tar layers and >= 1 entry (whiteout, opaque, replacement, type change) that affects a lower layer; distinct by hash of the case JSON",
    "assumptions": ["go-containerregistry (empty, mutate.Append, mutate.ConfigFile) builds the v1.Image faithfully from the generated tar streams",
                    "layers are tree-consistent (no name twice in one tar, no non-directory that is also a parent in the same tar): tar semantics of in-layer duplicates are not part of the property",
                    "size limits (MaxFileBytes) are left to C10; hard links to C06",
                    "with a requirer: intermediate views may keep non-required files, and a directory without retained descendants may be absent (documented pruning of the final view only; pathtree.Remove prunes emptied parents)"],
    "engine": "rapid",
    "technique": "model-based comparison of every image-up-to-layer view and of the squashed unpacking against an independent OCI overlay reference, both directions (listing vs direct lookup)",
    "level_text": "Sampled exploration with an exact oracle: each generated image is decided completely (all views x all mentioned paths x listing/lookup/read), plus in the thorough tier an exhaustive sweep of all tree-consistent 2-layer images over a small path universe.",
    "level_note": "Trusted: the 60-line overlay reference (internal/overlay), written from the OCI image-spec layer rules; known-finding classes are excluded by construction and counted in excluded_known.",
    "legs": [{"fam": "imagefam", "run": "^TestC04_"}],
    "timeout": {"quick": 600, "thorough": 1500},
}
PROPS["C17"] = {
    "level": "exploration",
    "exhaustive": {"quick": True, "thorough": True},
    "rule": "exhaustive enumeration of symlink graphs on n named entries (each a file, a directory, missing, deleted by a later layer, or a relative/absolute symlink to any entry) x MaxSymlinkDepth 0..6, batched under /g<k>/ in 3-layer images; every entry is queried with Stat, Open(+Stat of the handle, ReadAll) and ReadDir in the intermediate and the final view; one evaluation per (graph, depth); non-trivial = the graph has a symlink entry; distinct by (n, graph code, depth)",
    "assumptions": ["either ErrSymlinkCycle or ErrSymlinkDepthExceeded is accepted where the reference says the hop budget is exhausted",
                    "the boundary class c17.missing_at_budget_plus_one (exactly maxDepth links then a missing target) is measured separately: the statement puts it on the depth-error side"],
    "engine": "enumeration",
    "technique": "exhaustive enumeration of small symlink graphs against a hop-by-hop reference resolver with an explicit hop budget",
    "level_text": "Complete enumeration of the stated finite space (n <= 4 in the quick tier; the thorough tier states in coverage.sizes_exhaustive which sizes were enumerated completely) against an independent resolver.",
    "level_note": "Trusted: the 25-line resolver of internal/overlay (Appendix A.2).",
    "legs": [{"fam": "imagefam", "run": "^TestC17_"}],
    "timeout": {"quick": 600, "thorough": 1500},
}
