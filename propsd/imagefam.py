# C04, C17 (imagefam). C05 / C06(image) / C10(image) live in their own families and reuse
# harness/internal/tarimg and harness/internal/overlay.
PROPS = {}
PROPS["C04"] = {
    "level": "exploration",
    "exhaustive": {"quick": False, "thorough": False},
    "rule": "rapid-generated layer sequences (1-5 tar layers over a 45-path universe of depth <= 4; entries dir/file/symlink/whiteout/opaque in a generated in-tar order (as generated, reversed or shuffled); explicit, partial or implicit parents; plain, './' and absolute names; PAX/USTAR/GNU headers; history aligned / with interleaved empty layers / absent / not matching the layers; FileRequirerAll or a path-set requirer in both path spellings). Every view i is compared with the reference overlay on every mentioned path (Stat in two spellings, Open+Stat+ReadAll, ReadDir incl. per-entry kind/mode/size) and on a recursive walk (both directions), then UnpackSquashed of the same v1.Image is compared file by file. Non-trivial = >= 2 tar layers and >= 1 entry (whiteout, opaque marker, replacement, type change) that affects a lower layer; distinct by hash of the case JSON. The thorough tier adds the exhaustive sweep of all tree-consistent 2-layer images over the 6-path universe a, a/b, a/b/c, a/d, e, e/f (300 x 3423 images; coverage.sweep_* counts how many were checked and how many fall into known-finding classes).",
    "assumptions": ["go-containerregistry (empty, mutate.Append, mutate.ConfigFile) builds the v1.Image faithfully from the generated tar streams",
                    "layers are tree-consistent (no name twice in one tar, no non-directory that is also a parent in the same tar, no marker inside a directory the same tar whites out): tar semantics of such layers are not part of the property",
                    "whiteout markers are generated inside directories that exist below; opaque markers on directories that exist below or carry an entry in the same tar (what a marker in a non-existing directory implies is unspecified)",
                    "size limits (MaxFileBytes) are left to C10; hard links to C06",
                    "tolerated and counted (classes 'tolerated:*'): Open of an absent path returning a handle whose Stat/Read fail with not-exist (C17's c17.open_whiteout); ReadDir of an absent path or non-directory returning an empty list instead of an error",
                    "with a requirer: an intermediate view may keep or drop non-required files (only the final view is documented as pruned, where targets of required symlinks are retained); a directory without retained descendants may be absent (pathtree.Remove prunes emptied parents and its unit test demands that); UnpackSquashed must write every directly required regular file and nothing outside the closure of required links"],
    "engine": "rapid",
    "technique": "model-based comparison of every image-up-to-layer view and of the squashed unpacking against an independent OCI overlay reference, both directions (listing vs direct lookup)",
    "level_text": "Sampled exploration with an exact oracle: each generated image is decided completely (all views x all mentioned paths x listing/lookup/read), plus in the thorough tier an exhaustive sweep of all tree-consistent 2-layer images over a 6-path universe.",
    "level_note": "Trusted: the overlay reference (harness/internal/overlay, ~100 lines written from the OCI image-spec layer rules). Ten known-finding classes are excluded by construction and counted in excluded_known; each has a witness under replays/C04 that is replayed on every run. Sensitivity (quick tier, all caught): fillChainLayersWithFileNode ignoring inWhiteoutDir; ReadDir not filtering whiteouts; layer loop oldest-first; populateEmptyDirectoryNodes skipped; required-symlink targets not retained; fileNode.Stat not hiding whiteouts; unpack requirer path variant dropped.",
    "legs": [{"fam": "imagefam", "run": "^TestC04_"}],
    "timeout": {"quick": 600, "thorough": 2400},
}
PROPS["C17"] = {
    "level": "exploration",
    "exhaustive": {"quick": True, "thorough": True},
    "rule": "exhaustive enumeration of symlink graphs on n named entries (each a file, a directory, missing, deleted by a later layer, or a relative/absolute symlink to any entry incl. itself: (4+2n)^n graphs) x image.Config.MaxSymlinkDepth 0..6 (a load-time setting: every batch image is loaded once per depth), 250 graphs per 3-layer image (entries; whiteouts; an unrelated file). Every entry is queried with Stat, Open (+Stat of the handle, ReadAll) and ReadDir in the intermediate view (whiteout nodes present) and in the final view, and the listings of the two directories are compared. Quick: n = 1..4 complete plus 3000 seeded samples of n = 5; thorough: n = 1..5 complete (coverage.sizes_exhaustive says which sizes were complete). Plus 30 link/target shapes x 3 depths of symlinks whose target leaves the image root. One evaluation per (graph, depth); non-trivial = some queried entry is a symlink; distinct by (n, graph code, depth).",
    "assumptions": ["either ErrSymlinkCycle or ErrSymlinkDepthExceeded is accepted where the reference says the hop budget is exhausted; not-exist must satisfy errors.Is(err, fs.ErrNotExist); a returned node is identified by name, kind, size and content",
                    "only the final path component is resolved (the statement's scope); intermediate components are looked up literally by model and implementation alike",
                    "known-finding classes (c17.open_whiteout, c17.missing_at_budget_plus_one, c17.escaping_symlink_exposes_replaced_entry) are tolerated query by query and counted in excluded_known; their witnesses are replayed strictly on every run",
                    "ReadDir of a path that does not resolve may return an empty list instead of an error"],
    "engine": "enumeration",
    "technique": "exhaustive enumeration of small symlink graphs against a hop-by-hop reference resolver with an explicit hop budget",
    "level_text": "Complete enumeration of the stated finite space (n <= 4 x depth 0..6 in the quick tier, n <= 5 x depth 0..6 in the thorough tier: 559 630 graphs, 3.9 million (graph, depth) pairs) against an independent resolver.",
    "level_note": "Trusted: the 30-line resolver of harness/internal/overlay (Appendix A.2). Sensitivity (quick tier): caught 'depth < 0' -> 'depth <= 0', relative targets resolved from the root, Open returning the link node, depth never decremented; not caught because they do not change anything the property observes (cycle vs depth error are interchangeable, the depth bound alone guarantees termination): slow pointer advanced every step, cycle test by virtualPath, cycle test partly disabled.",
    "legs": [{"fam": "imagefam", "run": "^TestC17_"}],
    "timeout": {"quick": 600, "thorough": 2400},
}
