# C05 (layerfam): layer attribution of packages in container scans.
PROPS = {}

PROPS["C05"] = {
    "level": "exploration",
    "engine": "rapid",
    "technique": "rapid-generated layer histories over package-list files run through Scanner.ScanContainer; brute-force attribution oracle computed from an independent OCI overlay reference model",
    "level_text": "Generated histories (each layer writes, rewrites, deletes, deletes the parent directory of, re-creates or ignores each package-list file; history-only layers interleaved) are built into real images (go-containerregistry), loaded with FromV1Image and scanned with ScanContainer using a harness extractor. For every reported package the expected origin is computed by brute force from the reference overlay model (presence in every view), and index, diff ID and build command are compared.",
    "level_note": "Trusted: harness/internal/overlay (shared with C04, deliberately: a wrong intermediate view is one root cause and is reported by C04) and harness/internal/tarimg; go-containerregistry builds the image faithfully. While a C04 finding that changes intermediate views is listed as known, this generator stays clear of the corresponding shapes (counted under excluded_known).",
    "rule": "rapid-generated histories (image loaded with the default requirer or with path requirers naming the package lists relatively / slash-rooted / both): 1..3 package-list files (two sharing a directory) x 1..6 tar-backed layers x per layer and file one of {ignore, write 0..3 packages from a pool of 6, delete by whiteout, delete by whiting out the parent directory} x 0..2 history-only layers before any layer and at the end; 1/8 of the cases add a second extractor on one file, 1/8 packages without purl; non-trivial = >=3 chain layers and >=1 reported package whose origin is neither the first nor the last layer; distinct by hash of the case JSON",
    "assumptions": ["same package = same package URL at the same location", "an empty (history-only) layer never changes a view, so it can never be an origin"],
    "legs": [{"fam": "layerfam", "run": "^TestC05$"}],
    "timeout": {"quick": 900, "thorough": 3000},
}
