# C13, C18 (manifam)
PROPS = {}
PROPS["C18"] = {
    "level": "exploration",
    "exhaustive": {"quick": False, "thorough": True},
    "rule": "enumeration: per ecosystem (npm, Maven, PyPI) 7 ordered versions; every well-formed event list (strictly increasing versions, alternating introduced / fixed|last_affected, starting with introduced, '0' allowed as first introduced) of length <= 4 (quick) / <= 5 (thorough) x listing orders (quick: all orders for plain ECOSYSTEM/SEMVER records, sorted+reversed for the other record shapes; thorough: all orders for every shape) x 15 record shapes (ECOSYSTEM, SEMVER for npm, GIT noise, two ranges, two affected entries, other package / ecosystem, explicit versions) x every queried version; thorough adds all pairs (list <= 3 events) x (list <= 2 events, both orders); one evaluation per (record, queried version); non-trivial = a range of the queried package has >= 2 events and the queried version lies strictly inside the span of its event versions; distinct by the case JSON",
    "assumptions": ["the order of the 7 canonical versions per ecosystem is the ecosystem's documented order (SemVer 2.0 precedence, Maven ComparableVersion, PEP 440); the oracle works on their indices only",
                    "SEMVER ranges are generated for npm only; 'limit' events are not generated (the property does not mention them)",
                    "each event object carries exactly one of introduced / fixed / last_affected, as the OSV schema requires"],
    "engine": "enumeration",
    "technique": "exhaustive enumeration against a literal implementation of the OSV evaluation pseudo-code over version indices",
    "level_text": "Complete enumeration of the bounded space the property names (event lists up to length 5 over 7 versions, every listing order, every queried version, the listed record shapes) against an independent oracle; the quick tier stops at length 4.",
    "level_note": "Trusted: the 12-line index-based evaluator (DESIGN A.4) and the asserted order of the 7 version strings per ecosystem. Sensitivity: see MANIFEST notes.",
    "legs": [{"fam": "manifam", "run": "^TestC18$"}],
    "timeout": {"quick": 600, "thorough": 1800},
}
