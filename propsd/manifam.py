# C13, C18 (manifam)
PROPS = {}
PROPS["C18"] = {
    "level": "exploration",
    "exhaustive": {"quick": False, "thorough": True},
    "rule": "enumeration: per ecosystem (npm, Maven, PyPI) 7 ordered versions; records for other packages incl. near names (case variants, longer/shorter names, surrounding space); every well-formed event list (strictly increasing versions, alternating introduced / fixed|last_affected, starting with introduced, '0' allowed as first introduced) of length <= 4 (quick) / <= 5 (thorough) x listing orders (quick: all orders for plain ECOSYSTEM/SEMVER records, sorted+reversed for the other record shapes; thorough: all orders for every shape) x 15 record shapes (ECOSYSTEM, SEMVER for npm, GIT noise, two ranges, two affected entries, other package / ecosystem, explicit versions) x every queried version; thorough adds all pairs (list <= 3 events) x (list <= 2 events, both orders); one evaluation per (record, queried version); non-trivial = a range of the queried package has >= 2 events and the queried version lies strictly inside the span of its event versions; distinct by the case JSON",
    "assumptions": ["the order of the 7 canonical versions per ecosystem is the ecosystem's documented order (SemVer 2.0 precedence, Maven ComparableVersion, PEP 440); the oracle works on their indices only",
                    "SEMVER ranges are generated for npm only; 'limit' events are not generated (the property does not mention them)",
                    "each event object carries exactly one of introduced / fixed / last_affected, as the OSV schema requires"],
    "engine": "enumeration",
    "technique": "exhaustive enumeration against a literal implementation of the OSV evaluation pseudo-code over version indices",
    "level_text": "Complete enumeration of the bounded space the property names (event lists up to length 5 over 7 versions, every listing order, every queried version, the listed record shapes) against an independent oracle; the quick tier stops at length 4.",
    "level_note": "Trusted: the 12-line index-based evaluator (DESIGN A.4) and the asserted order of the 7 version strings per ecosystem. Sensitivity: see MANIFEST notes.",
    "legs": [{"fam": "manifam", "run": "^TestC18$"}],
    "timeout": {"quick": 600, "thorough": 1800},
}
PROPS["C13"] = {
    "level": "exploration",
    "exhaustive": {"quick": False, "thorough": False},
    "rule": "rapid-generated package.json documents (3 dependency sections in any combination, peerDependencies and unrelated nested keys, plain/scoped/dotted/special names, npm: aliases, non-registry specifiers, arbitrary key order, indentation, colon style, CRLF, compact layout, trailing newline) and pom.xml documents (namespaced project, optional local parent in 5 placements, properties, dependencies, dependencyManagement, version-less managed declarations, default-active and inactive profiles, pluginManagement and build plugins, comments, CDATA, entity references, versions literal / ${p} / prefix${p} / ${p}suffix (.0 .1.0 .2.3 .0.0 .10 -jre .Final ...) / prefix${p}suffix / ${p}sep${q} with optional literal prefix and/or suffix / ${project.version}, in every scope (dependencies, dependencyManagement, profiles, plugin dependencies, local parent), properties shared by several dependencies, properties defined in the other file or overridden by the child, one property name defined in several scopes at once (the dependency's own default-active profile plus an earlier/later profile, project level, the local parent or a profile of the local parent), the same package declared with a version in a second place) x update sets addressed to requirements present in the file; requested versions from a fixed pool or, for 3 in 4 updates of a property-interpolated version, built from its literal text: the declared version with other property values that often end (begin) with characters of the literal suffix (prefix) next to them (${x}.0 -> 1.10.0, 10.0, 1.0.0.0; ${x}.1.0 -> 21.1.0), or a version that cannot be spelled through the properties (only the literal parts, another ending, another beginning) so that <version> itself has to be rewritten; one evaluation = write + re-read of one (document, update set); non-trivial = Write returned nil for >= 1 update; distinct by hash of the case JSON",
    "assumptions": ["updates are addressed the way remediation.ConstructPatches (FixVulns) builds them from the requirement list the reader returns (name, version as read, dep.Type of the requirement); dependencies of inactive profiles and of pluginManagement plugins, which only the Update path reaches, the way the Maven suggester builds them (literal versions only)",
                    "all generated parents are local files (no network); dependencyManagement imports and repositories are not generated",
                    "an update names a package; every requirement entry of that package is addressed, as Manifest.PatchRequirement + ConstructPatches do (one PackageUpdate per distinct requirement key, VersionFrom taken from the last entry with that key)",
                    "not generated: whitespace or comments inside a <version> element, attributes on dependency/properties/profile/plugin start tags, HTML-only entities, non-UTF-8 encodings, parent version updates (would need the network on re-read)",
                    "for an update of a property-interpolated version either the text of <version> or the text of the property definitions in force for it may change (the writer chooses); the requirement read back must be the requested one either way; requested versions are arbitrary non-empty strings (doubled separators such as 1..0 included)",
                    "pom.xml preservation is judged on the encoding/xml token tree with adjacent character data merged (CDATA and escaped text are the same text)"],
    "engine": "rapid",
    "technique": "property-based testing with layout-aware generators; byte-exact expected rendering (package.json), token-tree comparison plus an independent reading of every dependency declaration (pom.xml), round trip through the reader",
    "level_text": "Randomised exploration of generated documents and update sets; each case checks no panic, round trip through the reader, and preservation of everything else.",
    "level_note": "Trusted: the harness's own JSON renderer, its pom.xml renderer and its encoding/xml based reading of dependency declarations and property scopes.",
    "legs": [{"fam": "manifam", "run": "^TestC13_(npm|pom)$"}],
    "timeout": {"quick": 600, "thorough": 1800},
}
