# C19 (plugfam)
PROPS = {}
PROPS["C19"] = {
    "level": "exploration",
    "exhaustive": {"quick": True, "thorough": True},
    "rule": "exhaustive enumeration of 32 capability tuples (OS in {Linux,Windows,Mac,Any} x network x direct-FS x running-system) x every plugin of the three registries, plus every registry key, group name and plugin name, plus every ordered triple of detectors that require extractors (repeats allowed, with and without a pre-enabled required extractor) through EnableRequiredExtractors, plus every ordered pair of capability tuples applied one after the other to one caller-owned list per registry (the list must be unchanged and the second result exact); one evaluation per (check, tuple, plugin/name); non-trivial = the plugin's requirement is non-empty (filter checks) or the check concerns name resolution; distinct by the case JSON (10) for every extractor that a built-in detector declares as required, a scan configured with nothing but a stub detector declaring it over an empty directory must succeed and report a status entry for that extractor (class required_extractor_runs_in_scan).",
    "assumptions": ["plugin.Capabilities values OSUnix / NetworkAny are requirement-only values and are not generated as environment capabilities",
                    "group names are the ones hard-coded in the three list packages at the pinned commit; their expected members come from the exported group maps"],
    "engine": "enumeration",
    "technique": "exhaustive enumeration against an independent restatement of requirement satisfaction",
    "level_text": "Complete enumeration of the finite space the property quantifies over (all capability tuples x the whole plugin registry x all names) against an independent oracle; at the pinned registry this decides the property, not samples it.",
    "level_note": "Trusted: the harness's 12-line restatement of 'environment satisfies requirement'; the list of group names is copied from the list packages.",
    "legs": [{"fam": "plugfam", "run": "^TestC19$"}],
    "timeout": {"quick": 600, "thorough": 600},
}
