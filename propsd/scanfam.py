# Scan-engine family (scanfam): C01, C08, C09, C10, C20.
PROPS = {}

PROPS["C01"] = {
    "level": "exploration",
    "engine": "rapid",
    "technique": "rapid-generated trees x scan configurations x FileRequired predicates against an independent reference model of the walk, plus a metamorphic relation between two real scans",
    "level_text": "Generated-input search: every case is a tree + configuration + fake extractors; the recorded Extract calls are compared with an independent ~250-line reference model of the documented dispatch loop and skip rules, the inventory with the union of what the calls returned, and a whole-tree scan with scans of explicitly requested sub-directories. Sampling, not proof; the thorough tier raises the case count 80-fold.",
    "level_note": "Trusted: the reference model (harness/internal/walkmodel), the in-memory FS (harness/internal/memfs), stdlib regexp and gobwas/glob for matching the generated patterns. Gitignore is covered on a pattern sub-language (literal names, *.ext, name/, /anchored, a/b; no negation). Situations the property leaves open are counted as don't-care, not asserted.",
    "rule": "rapid-generated directory trees (<=25 nodes, depth <=4: dirs, files 0..64 bytes, symlinks to files/dirs/dangling/absolute/self, special files, .gitignore files at any depth) x scan configuration (skip list / regex / glob independently, gitignore, requested files/dirs/missing paths, sub-directory cut-off, size limit around existing sizes, symlink reading, absolute paths) x 1..3 fake extractors with generated FileRequired predicates, on an in-memory FS (both ReadDirFile modes, generated listing order) and on a real temp directory; non-trivial = at least one Extract call expected AND at least one required file excluded by a rule other than FileRequired AND the case is not a don't-care; distinct by hash of the case JSON",
    "assumptions": [
        "skip rules apply to every directory path the walk visits including the walk root, matched against the path relative to the scan root",
        "with symlink reading on, a symlink counts as a file whatever its target; Extract is expected iff the target can be opened",
        "don't-care (counted, not asserted): a requested path with an ancestor matching a skip rule, a requested path that is a symlink, gitignore on an explicitly requested file, sub-directory cut-off without requested paths, size limit on an unresolvable symlink (C09)",
    ],
    "legs": [
        {"fam": "scanfam", "run": "^TestC01_memfs$"},
        {"fam": "scanfam", "run": "^TestC01_realfs$", "shards": 4},
    ],
    "timeout": {"quick": 600, "thorough": 2400},
}

PROPS["C08"] = {
    "level": "exploration",
    "engine": "rapid",
    "technique": "metamorphic testing: permuted directory listing orders and root counts must not change the result; sortedness predicate on the output",
    "level_text": "Generated-input search with metamorphic oracles between real runs: the same tree is scanned under 2-4 independently drawn listing permutations of every directory and both directory-handle modes and must give identical, sorted output; a scan of 2-3 roots must equal the multiset union of the single-root scans with no package object repeated.",
    "level_note": "Trusted: the in-memory FS's permutation knob. Go map-iteration randomness is sampled by repeated runs, not controlled. The free-text failure reason is excluded (it concatenates errors in walk order, as the repository's own tests acknowledge); the number of status entries per plugin for several roots is not pinned by the property and not asserted.",
    "rule": "rapid-generated trees x 2..4 listing permutations x both ReadDirFile modes x fake extractors drawing package names from a pool of 1..3 so that sort keys tie, or from pools of names/versions that are prefixes of one another around '/' (foo, foo-bar, foo.bar, foo/bar, 1.0, 1.0.1, 1.0-rc1, b/c) x 0..3 fake detectors with findings tying on the advisory reference; every 4th case scans 2..3 roots (distinct trees or the same tree twice); non-trivial = (single root) >=2 directories with >=2 entries and >=2 packages, (multi root) >=2 roots contributing packages; distinct by hash of the case JSON Multi-root cases also decide the plugin statuses: an extractor's status must be what its single-root statuses add up to (something went wrong in some root / something was found in some root); later roots may hold hardly anything and one extractor may fail on every second file (classes multi_root_extractor_with_errors). Fake extractors report packages at 1..3 locations in unsorted order; the printed location list is the last sort key and every package's locations must come out sorted.",
    "assumptions": ["documented order: packages by (name, version, extractor name, locations), statuses by name, findings by (advisory reference, extra)",
                    "detectors only see the first root by design and are left out of multi-root cases"],
    "legs": [{"fam": "scanfam", "run": "^TestC08$"}],
    "timeout": {"quick": 600, "thorough": 2400},
}

PROPS["C09"] = {
    "level": "fault_enumeration",
    "engine": "rapid",
    "exhaustive": {"quick": False, "thorough": False},
    "technique": "fault injection: enumeration of every single fault and pairs of faults over the logged FS operations of rapid-generated trees, differential against the fault-free run",
    "level_text": "For every generated small tree the fault space is enumerated rather than sampled: a fault-free probe run logs every FS operation (stat, open, k-th directory read, stat of an open file, n-th read); every single fault (operation x {permission, I/O, not-exist}) and every pair (exhaustive up to 400 pairs, else an evenly spaced sample of ~150) is injected under all 8 combinations of fatal-on-error x size limit x directory-handle mode, and the outcome is compared with the fault-free run of the same tree. The trees themselves are sampled by rapid.",
    "level_note": "Trusted: the in-memory FS's fault plan and operation log (harness/internal/memfs), the region rule of DESIGN Appendix A.5. Faults are injected at the fs.FS interface; kernel-level partial reads are not modelled. With fatal-on-error set, whether a file-level (non-traversal) fault is fatal is not pinned by the property and not asserted.",
    "rule": "rapid-generated trees (<=12 nodes, depth <=3, .gitignore files, symlinks) x 1..2 fake extractors; a third of the scenarios list 2..4 PathsToExtract (tree nodes, sometimes a missing path); per tree every single fault over every logged operation (incl. the stat of listed paths) x 3 error kinds, sticky variants, plus pairs, x fatal-on-error on/off x size limit off/median x ReadDirFile on/off; one evaluation per (tree, options, fault set); non-trivial = the faulted operation was actually reached AND at least one Extract call outside the failing region is still expected; distinct by (scenario hash, options, fault set) A quarter of the whole-tree scenarios add a fault-free second scan root (before or after the faulted one) whose results count as the extractor's other results (classes scenario_with_fault_free_second_root_1/2). After the first wait that runs into the five-minute hang limit, further waits in the process are limited to 40 s so that shrinking finishes. A scan that makes more than 2^20 file-system operations on a generated tree is reported as non-terminating (the file system parks the caller beyond the budget); a scan that stops making calls and does not return is reported after the hang limit.",
    "assumptions": ["failing region of a fault = the subtree of the directory (stat/open/readdir on a directory, or an unreadable .gitignore) or the single file (open, stat of the handle, read, lazy stat)",
                    "an extractor that loses a required file to an open/fstat/read fault must be Failed, or PartiallySucceeded when it reported inventory elsewhere"],
    "legs": [{"fam": "scanfam", "run": "^TestC09$"}],
    "timeout": {"quick": 900, "thorough": 3000},
}

PROPS["C10"] = {
    "level": "exploration",
    "engine": "rapid",
    "technique": "boundary-value enumeration over rapid-generated trees: every inode limit, size limit and cancellation point of each tree, with counting invariants on the recorded events and a differential against the unlimited run",
    "level_text": "Generated trees; per tree the boundary values are enumerated, not sampled: inode limits {1, n-1, n, n+1}, size limits {s-1, s, s+1} for every file size s, cancellation before the scan, inside the k-th Extract for every k and at the j-th visited inode for every j. Invariants are counted on recorded events (AfterInodeVisited, Extract calls with the size they were handed and the bytes they could read, standalone / detector runs) and compared with the unlimited run of the same tree. The image part (per-file byte limit of image loading) is a separate leg over generated tar streams.",
    "level_note": "Trusted: recording fake plugins and stats collector (harness/internal/recext), the in-memory FS. Cancellation is injected synchronously from inside a callback, so the cancellation instant is exact; asynchronous cancellation between two instructions is not explored.",
    "rule": "container leg: one package-list file rewritten by 2..5 layers with sizes on both sides of ScanConfig.MaxFileSize, scanned with ScanContainer and a recording extractor (no Extract call, in any pass over any layer, may receive more than the limit; what the final file system holds within the limit is reported); rapid-generated trees (<=14 nodes, 1..2 roots, symlinks, special files) x 1..3 fake extractors x 0..2 standalone extractors x 0..2 detectors; per tree all boundary limits and all cancellation points (before the scan, inside each Extract call, at each inode, inside each standalone extractor and each detector, which then returns nil or the context's error) are enumerated; one evaluation per (tree, limit or cancellation point); non-trivial = the limit is within +-1 of the quantity it bounds, or the cancellation point has work remaining after it; distinct by (scenario hash, mode, parameter). Image leg: generated layer tars with file sizes in {L-1, L, L+1, 2L} for byte limits L",
    "assumptions": ["'the tree holds more inodes than the limit' is measured by the number of inodes the unlimited scan visits",
                    "after cancellation inside an Extract call, further extractors may still run on the same file (the property forbids extraction on any FURTHER file)"],
    "legs": [{"fam": "scanfam", "run": "^TestC10_scan$"}, {"fam": "layerfam", "run": "^TestC10_(image|container)$"}],
    "timeout": {"quick": 900, "thorough": 3000},
}

PROPS["C20"] = {
    "level": "exploration",
    "engine": "rapid",
    "technique": "rapid-generated fake detectors and inventories run through Scanner.Scan, checked against a model of index contents, finding tagging, statuses and advisory consistency",
    "level_text": "Generated-input search through the public Scan entry point: fake extractors (filesystem and standalone, packages with and without purl, colliding names and types) and 0-4 fake detectors with generated finding lists; the index each detector receives, the emitted findings, the per-detector statuses and the overall status are compared with a direct model of the statement.",
    "level_note": "Trusted: recording fake plugins (harness/internal/recext). A nil *Finding inside a finding list is treated as API misuse and not generated.",
    "rule": "rapid-generated small trees x 1..3 fake filesystem extractors (1..3 packages per file, purl types generic/pypi/npm/deb, purls with and without namespace, qualifiers and subpath, purl names equal to / derived from / shared between package names, 0..100% of packages without purl, name pools so that type+name collide; GetSpecific and GetAllOfType are checked for recall and precision, incl. absent types and names) x 0..2 standalone extractors x 0..4 fake detectors each returning 0..3 findings (advisory ids from a pool of 6, titles/severities that make bodies equal or unequal, ~13% without advisory or id) and possibly an error; non-trivial = >=2 detectors and >=2 findings; distinct by hash of the case JSON Detectors may share a name (one case in five with >= 2 detectors; classes detectors_share_a_name, detectors_share_a_name_outcomes_differ): status entries under a name are compared as a multiset with what the detectors of that name returned. One detector in six declares a built-in extractor (python/requirements, go/gomod) as required that is not configured: the scan must enable and run it (status entry), and the package its file declares must be in the inventory and in every index (class detector_requires_extractor_not_configured).",
    "assumptions": ["two advisories are 'equal in content' iff all their fields are deeply equal"],
    "legs": [{"fam": "scanfam", "run": "^TestC20$"}],
    "timeout": {"quick": 600, "thorough": 2400},
}
