# C07 (semverfam)
PROPS = {}
PROPS["C07"] = {
    "level": "exploration",
    "exhaustive": {"quick": False, "thorough": False},
    "rule": "one evaluation = one case (ecosystem name + 2 or 3 version strings) decided by the oracle of its leg; "
            "non-trivial = pair leg: both strings accepted (Parse ok, CompareStr without error in both directions and on itself) and not byte-equal; "
            "triple leg: all three in the ecosystem grammar and not all three byte-equal; "
            "canonical leg: both in the canonical grammar, at least one reference comparator applies, not byte-equal; "
            "distinct by the case JSON (kind, ecosystem, strings)",
    "assumptions": [
        "the ecosystem grammars are conservative renderings of the published ones (semver.org 2.0.0 regex, PEP 440 appendix B, "
        "Gem::Version pattern, Composer classical versions, Debian Policy 5.6.12, rpm EVR, apk-package(5), R package_version, "
        "Maven tokens of digits/letters separated by '.'/'-'); transitivity is only demanded inside them",
        "agreement with published ordering rules is checked only on narrow canonical grammars (int32-sized numbers, no leading zeros "
        "where tools disagree, no hyphens inside SemVer identifiers, rpm pairs with a release on both sides or neither, apk pairs with "
        "equal numbers of numeric components, no commit hash and -rN on both sides or neither, Composer x.y.z with one stability suffix); "
        "every reference is first checked against the repository's own fixture lines that fall inside the canonical grammar",
        "letter case: about one triple in six and one canonical pair in nine of the ecosystems whose grammar has letters is a case variant "
        "(b = a with the case of one or all letters changed; classes triple.case_variant / canon.case_variant); references treat case as published: "
        "bytewise for SemVer identifiers, Gem::Version, dpkg and rpmvercmp, case-insensitive for NuGet, Maven qualifiers and PEP 440; Alpine has no "
        "upper-case letters in its grammar; canonical Packagist keeps only the RC/rc spellings (PHP version_compare and Composer disagree on other "
        "upper-case stability words); deps.dev is not consulted for RubyGems or PyPI strings with upper-case letters (it lower-cases gems)",
        "ecosystems are drawn uniformly: per-ecosystem counts are the per-leg counts divided by 16",
    ],
    "engine": "rapid",
    "technique": "property-based testing: algebraic laws on arbitrary strings and grammar-valid triples; differential testing against "
                 "deps.dev/util/semver and small reference comparators on canonical versions",
    "level_text": "Sampled exploration of an infinite input space: every generated case is decided exactly by the laws / the reference, "
                  "but absence of violations is only established for the cases explored.",
    "level_note": "Trusted: internal/vergram (grammars, recognisers, six reference comparators of ~40 lines each, calibrated on every run "
                  "against the fixture lines of /repo/semantic/testdata) and deps.dev/util/semver as second opinion for "
                  "npm, crates.io, Go, Maven, NuGet, PyPI, RubyGems and numeric Packagist versions.",
    "legs": [{"fam": "semverfam", "run": "^TestC07_"}],
    "timeout": {"quick": 600, "thorough": 2400},
}
