#!/usr/bin/env python3
"""Runs the repository's own test suite with the verif guard OFF and checks that every test in
BASELINE.json's stable_pass list still passes.  tools/baseline_check.py [repo-dir]"""
import json, os, subprocess, sys
repo = sys.argv[1] if len(sys.argv) > 1 else "/repo"
base = json.load(open("/root/.vp/BASELINE.json"))
stable = set(base["stable_pass"])
import tempfile, shutil, atexit
env = dict(os.environ, GOFLAGS="-mod=mod", GOPROXY="off")
env.pop("GOSUMDB", None)
# a private temporary directory: artifact/image/unpack compares listings of os.TempDir() taken
# milliseconds apart, which other processes writing to /tmp make fail
_tmp = tempfile.mkdtemp(prefix="baseline-tmp-")
_gotmp = tempfile.mkdtemp(prefix="baseline-gotmp-")
atexit.register(lambda: (shutil.rmtree(_tmp, ignore_errors=True), shutil.rmtree(_gotmp, ignore_errors=True)))
env["TMPDIR"] = _tmp
env["GOTMPDIR"] = _gotmp
p = subprocess.run(["go", "test", "-json", "-vet=off", "-count=1", "-timeout", "25m", "./..."], cwd=repo, env=env,
                   stdout=subprocess.PIPE, stderr=subprocess.DEVNULL, text=True)
res = {}
for line in p.stdout.splitlines():
    try:
        e = json.loads(line)
    except ValueError:
        continue
    if e.get("Test") and e.get("Action") in ("pass", "fail", "skip"):
        res[e["Package"] + "::" + e["Test"]] = e["Action"]
missing = sorted(t for t in stable if res.get(t) != "pass")
if missing:
    # the machine may be busy (other checks running): re-run the packages concerned once, alone
    pkgs = sorted(set(t.split("::")[0] for t in missing))
    p2 = subprocess.run(["go", "test", "-json", "-vet=off", "-count=1", "-p", "1", "-timeout", "25m"] + pkgs, cwd=repo, env=env,
                        stdout=subprocess.PIPE, stderr=subprocess.DEVNULL, text=True)
    for line in p2.stdout.splitlines():
        try:
            e = json.loads(line)
        except ValueError:
            continue
        if e.get("Test") and e.get("Action") in ("pass", "fail", "skip"):
            res[e["Package"] + "::" + e["Test"]] = e["Action"]
    missing = sorted(t for t in stable if res.get(t) != "pass")
print("stable_pass: %d, passing now: %d, not passing: %d" % (len(stable), len(stable) - len(missing), len(missing)))
for t in missing[:50]:
    print("  NOT PASSING:", t, res.get(t))
sys.exit(1 if missing else 0)
