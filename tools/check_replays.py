#!/usr/bin/env python3
"""Replays every witness named in KNOWN_FINDINGS.txt through ./check --replay.

A `known:` witness must fail (exit 1: the defect is still there), a `fixed:` witness must
pass (exit 0). Prints one line per witness and a summary; exit 1 if any expectation is not met.
"""
import os, re, subprocess, sys
ROOT = os.path.dirname(os.path.dirname(os.path.abspath(__file__)))
only = set(sys.argv[1:])
bad = 0
n = 0
for l in open(os.path.join(ROOT, "KNOWN_FINDINGS.txt")):
    m = re.match(r"(known|fixed): property=(\S+)", l)
    if not m:
        continue
    kind, pid = m.groups()
    if only and pid not in only:
        continue
    for wpath in re.findall(r"(replays/[^\s,;]+\.json)", l):
        path = os.path.join(ROOT, wpath)
        if not os.path.exists(path):
            print("MISSING %s %s %s" % (kind, pid, wpath)); bad += 1; continue
        r = subprocess.run([os.path.join(ROOT, "check"), pid, "--replay", path], cwd=ROOT, stdout=subprocess.PIPE, stderr=subprocess.STDOUT, text=True)
        want = 1 if kind == "known" else 0
        ok = r.returncode == want
        n += 1
        print("%s %s %s %s -> exit %d" % ("ok " if ok else "BAD", kind, pid, wpath, r.returncode), flush=True)
        if not ok:
            bad += 1
            print("    " + "\n    ".join(r.stdout.strip().splitlines()[-3:]))
print("%d witnesses replayed, %d unexpected" % (n, bad))
sys.exit(1 if bad else 0)
