#!/usr/bin/env python3
"""Prints the findings and seeded-change tables of DESIGN.md from KNOWN_FINDINGS.txt and seeded/*/meta.json."""
import json, glob, os, re, sys
ROOT = os.path.dirname(os.path.dirname(os.path.abspath(__file__)))
def esc(s): return s.replace("|", "\\|")
fixed, known = [], []
for l in open(os.path.join(ROOT, "KNOWN_FINDINGS.txt")):
    l = l.rstrip("\n")
    if l.startswith("fixed:"):
        m = re.match(r"fixed: property=(\S+) (\S+) (.*)", l)
        what = re.sub(r"; witness .*$", "", m.group(3))
        fixed.append((m.group(1), m.group(2), what))
    elif l.startswith("known:"):
        head, what = l.split("::", 1)
        f = dict(x.split("=", 1) for x in head.split()[1:] if "=" in x)
        known.append((f["property"], f.get("class", ""), f.get("witness", ""), what.strip()))
import io, contextlib
def table(which):
    buf = io.StringIO()
    with contextlib.redirect_stdout(buf):
        emit(which)
    return buf.getvalue().rstrip("\n")
def emit(which):
  if which == "fixed":
      print("| property | repaired defect | `fix:` commit in /repo |\n|---|---|---|")
      for p, c, w in sorted(fixed):
          print("| %s | %s | `%s` |" % (p, esc(w), c))
  elif which == "known":
      print("| property | class | what fails | witness |\n|---|---|---|---|")
      for p, c, wit, w in sorted(known):
          print("| %s | `%s` | %s | `%s` |" % (p, esc(c), esc(w), wit))
  elif which == "seeds":
      print("| seed | property | what the change breaks | what it needs to manifest | caught by | note |\n|---|---|---|---|---|---|")
      for d in sorted(glob.glob(os.path.join(ROOT, "seeded", "*"))):
          m = json.load(open(os.path.join(d, "meta.json")))
          cr = m.get("check_results", {})
          caught = ", ".join(k for k, v in cr.items() if v.get("caught")) or "MISSED"
          note = m.get("strengthening", "")
          if m.get("initially_missed") and not note.startswith("initially missed"):
              note = "initially missed; added: " + note
          if m.get("patch_applies_to_head") is False:
              note = (note + "; " if note else "") + "the patch no longer applies to HEAD (a later fix: commit rewrote the code it changes): the result is from the commit it was written for"
          print("| %s | %s | %s | %s | %s | %s |" % (os.path.basename(d), m.get("property", ""), esc((m.get("title") or m.get("what_breaks", ""))[:160]), esc(str(m.get("needs_to_manifest", ""))[:220]), caught, esc(note)))

if sys.argv[1] == "--write":
    # rewrite the tables of DESIGN.md in place (between the BEGIN/END markers)
    p = os.path.join(ROOT, "DESIGN.md")
    d = open(p).read()
    for name in ("fixed", "known", "seeds"):
        b, e = "<!-- BEGIN table-%s -->\n" % name, "\n<!-- END table-%s -->" % name
        i, j = d.index(b) + len(b), d.index(e)
        d = d[:i] + table(name) + d[j:]
    open(p, "w").write(d)
else:
    emit(sys.argv[1])
