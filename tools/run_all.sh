#!/bin/bash
# usage: tools/run_all.sh <tier> <seed>   -- runs every claimed check once, prints one line each
cd "$(dirname "$0")/.."
tier=${1:-quick}; seed=${2:-1}
for p in $(python3 -c "from props import CLAIMED; print(' '.join(CLAIMED))"); do
  out=$(VERIF_SEED=$seed ./check $p --tier $tier 2>&1); rc=$?
  echo "seed=$seed $p rc=$rc $(echo "$out" | grep -E '^(OK|VIOLATION|INCONCLUSIVE)' | head -2 | tr '\n' ' ')"
done
