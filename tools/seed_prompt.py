#!/usr/bin/env python3
"""Prints the assignment for an independent seeding agent.

  tools/seed_prompt.py <PROP-ID> <worktree> <letter1> <letter2>

The agent gets only the property text (from properties.jsonl), its own scratch worktree of
/repo and the TITLES of the seeded changes already stored for that property (so that new ones
use other mechanisms); nothing else from /verif.
"""
import json, os, sys, glob
ROOT = os.path.dirname(os.path.dirname(os.path.abspath(__file__)))
pid, wt, l1, l2 = sys.argv[1:5]
prop = next(json.loads(l) for l in open(os.path.join(ROOT, "properties.jsonl")) if json.loads(l)["id"] == pid)
earlier = []
for d in sorted(glob.glob(os.path.join(ROOT, "seeded", pid + "-*"))):
    try:
        earlier.append(json.load(open(os.path.join(d, "meta.json")))["title"])
    except Exception:
        pass
print(f"""You are helping to evaluate a test suite by writing realistic, subtle defects ("seeded bugs") for the Go library google/osv-scalibr. You work ONLY inside your own scratch git worktree of the repository at {wt} (a detached checkout; do not touch /repo, /verif or any other directory; do not read anything under /verif). Environment for every go command: `export GOFLAGS=-mod=mod GOPROXY=off` (no network is available; do not set GOSUMDB or GOTOOLCHAIN).

The property under study:

Property {pid} — {prop['title']}

Statement: {prop['statement']}

Quantified over: {prop['quantifier']['text']}

Code it is anchored in: {', '.join(prop['anchors']['files'])}


Task: produce TWO independent changes (named {l1} and {l2}) to the library source in the worktree, each of which breaks this property while (1) still compiling (`go build ./...`), (2) passing the existing unit tests of every package you touch and of the packages that directly use it (run `go test -count=1` on those packages before and after; a handful of tests in this sandbox fail already on the unchanged tree because some binary fixtures are empty files — compare against the unchanged tree and only make sure you introduce no NEW failures), and (3) looking like a plausible regression a maintainer could introduce in a refactoring, optimisation or feature change — not a blatant sabotage, and not a change in test files.

Important: make the changes need something SPECIFIC to manifest — a particular combination of configuration options, an unusual but legal input, a multi-step sequence, a boundary value, two cooperating code sites that each look fine alone — rather than something every ordinary use would expose at once. {l1} and {l2} must use different mechanisms / code sites and break different aspects of the property.

For each change deliver, under {wt}/seeded/{l1}/ and {wt}/seeded/{l2}/ :
  - patch.diff : `git diff` of the library change only (relative to the worktree's HEAD), applicable with `git apply` at the repository root;
  - a demonstration: a Go test file (give its intended path inside the repository, e.g. extractor/filesystem/seeded_demo_test.go, as the first comment line) or a small main program that FAILS with the change applied and PASSES without it; verify both directions yourself;
  - meta.json : {{"property": "<id>", "title": "...", "what_breaks": "...", "needs_to_manifest": "...", "files_touched": [...], "existing_tests_run": ["go test ./pkg/..."], "demo_cmd": "go test ./pkg -run TestSeededDemo"}}.
Work on one change at a time: apply {l1}, verify, save its diff, then `git checkout -- .` (keep the seeded/ directory, which is untracked) and do {l2}. Leave the worktree's tracked files unmodified at the end (git status clean except the untracked seeded/ directory and demo files saved inside seeded/).

Final message: for {l1} and {l2} one paragraph each: what was changed, why the existing tests do not notice, what input/configuration makes it manifest, and the exact commands you ran to verify (existing tests pass; demo fails with / passes without the change).
""")
if earlier:
    print("Earlier seeded changes for this property already exist; yours must use DIFFERENT mechanisms and code sites, and should attack aspects of the statement they do not touch. The earlier ones were:")
    for t in earlier:
        print("  - " + t)
    print()
print("Notes: directories named verifhooks, files named verif_*.go and the two verifEnter / verifExit lines in guidedremediation/internal/strategy/common/common.go are build-tag-guarded test hooks: ignore and do not change them. Several binary fixtures under testdata are empty files in this sandbox, so a few tests (gobinary, rpm, vmlinuz, containerd, layerscanning/image TestFromTarball, binary/scanrunner TestRunScan) fail on the unchanged tree already. Do not kill processes you did not start (no broad pkill, no killall). Never use `git stash` (the stash is shared by all worktrees of the repository and other agents work in sibling worktrees): to go back to the unchanged tree use `git diff > file` and `git checkout -- .`, and `git apply file` to return. Demonstrations must only write inside directories they create with t.TempDir(). Keep scratch output files inside your worktree's seeded/ directory, not in /tmp.")
